#!/bin/bash
# Build the framework from files on disk only (offline) and warm the Go build cache.
set -e
export GOFLAGS=-mod=mod GOPROXY=off GOSUMDB=off GOTOOLCHAIN=local
cd "$(dirname "$0")/harness"
cp /repo/go.sum ./go.sum.repo 2>/dev/null || true
# go.sum = repo's sums + the harness's own (rapid); both are in the module cache
cat go.sum.repo go.sum 2>/dev/null | sort -u > go.sum.new && mv go.sum.new go.sum; rm -f go.sum.repo
go vet ./asm ./sem >/dev/null
d=$(mktemp -d)
go test -c -tags verif -o "$d/props.test" ./props
(cd /repo && go build -tags verif -o "$d/gosk" ./cmd/gosk && git checkout -- go.sum 2>/dev/null || true)
rm -rf "$d"
echo "setup ok"
