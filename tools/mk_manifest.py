#!/usr/bin/env python3
"""Regenerate MANIFEST.json from the table below (kept next to the checks so the two stay in step)."""
import json, os, subprocess
V = os.path.dirname(os.path.dirname(os.path.abspath(__file__)))
props = [json.loads(l) for l in open(os.path.join(V, "properties.jsonl"))]
claimed = json.load(open(os.path.join(V, "tools", "claims.json")))
checks, na = [], []
for p in props:
    pid = p["id"]
    c = claimed.get(pid)
    if not c or c.get("not_applicable"):
        na.append({"property_id": pid, "reason": (c or {}).get("not_applicable", "check not built yet (work in progress); see DESIGN.md section 4 for the planned generated-input check")})
        continue
    checks.append({
        "property_id": pid,
        "quick_cmd": f"./check {pid} quick",
        "thorough_cmd": f"./check {pid} thorough",
        "evidence_file": f"/verif/evidence/{pid}.json",
        "replay_cmd_template": f"./check {pid} --replay {{path}}",
        "engine": "gosk-pbt",
        "level_claimed": {"category": "exploration", "text": c["level_text"], "design_ref": c.get("design_ref", "DESIGN.md section 4, " + pid)},
        "level_note": c["level_note"],
        "technique": c["technique"],
    })
hooks = subprocess.run(["git", "-C", "/repo", "log", "--format=%H %s", "--grep=^hook:"], capture_output=True, text=True).stdout.split("\n")
m = {
    "version": 1,
    "setup_cmd": "./setup.sh",
    "hooks": {
        "guard": "verif",
        "enable": "checks build the harness and /repo with 'go test -c -tags verif'; no source hook was needed, so the tag currently selects nothing in /repo",
        "baseline_off_cmd": "cd /repo && GOFLAGS=-mod=mod GOPROXY=off GOSUMDB=off GOTOOLCHAIN=local go test -vet=off -count=1 ./...",
        "source_commits": [h.split()[0] for h in hooks if h.strip()],
        "add_only": True,
    },
    "engines": [{"name": "gosk-pbt", "path": "/verif/harness", "serves_properties": [c["property_id"] for c in checks],
                 "kind_free_text": "property-based testing (pgregory.net/rapid v1.3.0) and boundary-grid enumeration against explicit oracles: independent x86 decoder, reference models, metamorphic relations; driver /verif/check"}],
    "checks": checks,
    "not_applicable": na,
    "notes": "All checks are generated-input searches against an explicit oracle (DESIGN.md). Known genuine defects that were recorded rather than repaired are listed in /verif/known_findings.json; repaired ones are fix: commits in /repo, listed there as 'fixed' lines.",
}
json.dump(m, open(os.path.join(V, "MANIFEST.json"), "w"), indent=1)
print(f"MANIFEST.json: {len(checks)} checks, {len(na)} not_applicable")
