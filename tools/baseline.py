#!/usr/bin/env python3
"""Run the repository's own test suite (guard off) and compare with BASELINE.json's stable_pass list."""
import json, os, subprocess, sys
env = dict(os.environ, GOFLAGS="-mod=mod", GOPROXY="off", GOSUMDB="off", GOTOOLCHAIN="local")
repo = os.environ.get("VERIF_REPO", "/repo")
p = subprocess.run(["go", "test", "-json", "-vet=off", "-count=1", "-timeout", "25m", "./..."], cwd=repo, env=env, capture_output=True, text=True)
passed = set()
failed = set()
for line in p.stdout.splitlines():
    try:
        e = json.loads(line)
    except Exception:
        continue
    if e.get("Test") and e.get("Action") in ("pass", "fail"):
        (passed if e["Action"] == "pass" else failed).add(e["Package"] + "::" + e["Test"])
want = set(json.load(open("/root/.vp/BASELINE.json"))["stable_pass"]) if os.path.exists("/root/.vp/BASELINE.json") else passed
missing = sorted(want - passed)
print(f"baseline: {len(want)} expected, {len(want & passed)} passed, {len(missing)} missing, {len(failed)} failed")
for m in missing[:20]:
    print("  MISSING", m)
subprocess.run(["git", "-C", repo, "checkout", "--", "go.sum", "go.mod"], capture_output=True)
sys.exit(1 if missing else 0)
