#!/usr/bin/env python3
"""Run checks against a seeded change and report which of them raise a VIOLATION.

usage: tools/seedtrial.py <patch.diff> [ID ...]        (default: all 19, quick tier)
       tools/seedtrial.py --all                        re-run every /verif/seeded/*/patch.diff
                                                       against the checks its meta.json names

The patch is applied to /repo's working tree (git apply), the checks run, and
the tree is restored (git checkout -- . ; untracked files the patch created are
removed) whatever happens. Nothing is committed. Refuses to start when /repo is
not clean.
"""
import json, os, re, subprocess, sys

VERIF = os.path.dirname(os.path.dirname(os.path.abspath(__file__)))
REPO = "/repo"
ALL = [f"C{i:02d}" for i in range(1, 20)]


def sh(*a, **k):
    return subprocess.run(a, capture_output=True, text=True, **k)


def clean():
    return sh("git", "-C", REPO, "status", "--porcelain").stdout.strip() == ""


def restore():
    sh("git", "-C", REPO, "checkout", "--", ".")
    sh("git", "-C", REPO, "clean", "-fdq")
    for f in os.listdir(os.path.join(VERIF, "replays")):
        if f.endswith(".json"):
            os.remove(os.path.join(VERIF, "replays", f))


def trial(patch, ids, tier="quick"):
    if not clean():
        sys.exit("/repo is not clean")
    p = sh("git", "-C", REPO, "apply", os.path.abspath(patch))
    if p.returncode != 0:
        return {"error": "does not apply: " + p.stderr.strip()[:200]}
    res = {}
    # a trial must not leave evidence written against a patched tree behind
    saved = {}
    for i in ids:
        ev = os.path.join(VERIF, "evidence", f"{i}.json")
        saved[ev] = open(ev, "rb").read() if os.path.exists(ev) else None
    try:
        for i in ids:
            r = sh(os.path.join(VERIF, "check"), i, tier, env=dict(os.environ, VERIF_SEED=os.environ.get("VERIF_SEED", "1")))
            n = len(re.findall(r"^VIOLATION ", r.stdout, re.M))
            res[i] = "INCONCLUSIVE" if r.returncode == 2 else n
    finally:
        restore()
        for ev, data in saved.items():
            if data is None:
                if os.path.exists(ev):
                    os.remove(ev)
            else:
                open(ev, "wb").write(data)
    return res


def main():
    a = sys.argv[1:]
    if a and a[0] == "--all":
        for d in sorted(os.listdir(os.path.join(VERIF, "seeded"))):
            m = json.load(open(os.path.join(VERIF, "seeded", d, "meta.json")))
            ids = sorted({x[:3] for x in m["detected_by_quick"] if re.match(r"C\d\d", x)})
            patch = os.path.join(VERIF, "seeded", d, "patch.diff")
            ported = [f for f in os.listdir(os.path.join(VERIF, "seeded", d)) if f.startswith("patch-ported")]
            if ported:
                patch = os.path.join(VERIF, "seeded", d, ported[0])
            if not ids:
                print(d, "(no check named)")
                continue
            print(d, json.dumps(trial(patch, ids)), flush=True)
        return
    if not a:
        sys.exit(__doc__)
    print(json.dumps(trial(a[0], a[1:] or ALL)))


if __name__ == "__main__":
    main()
