// Copyright 2014 The Go Authors.  All rights reserved.
// Use of this source code is governed by a BSD-style
// license that can be found in the LICENSE file.

package x86asm

import (
	"fmt"
	"strings"
)

// GNUSyntax returns the GNU assembler syntax for the instruction, as defined by GNU binutils.
// This general form is often called “AT&T syntax” as a reference to AT&T System V Unix.
func GNUSyntax(inst Inst, pc uint64, symname SymLookup) string {
	// Rewrite instruction to mimic GNU peculiarities.
	// Note that inst has been passed by value and contains
	// no pointers, so any changes we make here are local
	// and will not propagate back out to the caller.

	if symname == nil {
		symname = func(uint64) (string, uint64) { return "", 0 }
	}

	// Adjust opcode [sic].
	switch inst.Op {
	case FDIV, FDIVR, FSUB, FSUBR, FDIVP, FDIVRP, FSUBP, FSUBRP:
		// DC E0, DC F0: libopcodes swaps FSUBR/FSUB and FDIVR/FDIV, at least
		// if you believe the Intel manual is correct (the encoding is irregular as given;
		// libopcodes uses the more regular expected encoding).
		// TODO(rsc): Test to ensure Intel manuals are correct and report to libopcodes maintainers?
		// NOTE: iant thinks this is deliberate, but we can't find the history.
		_, reg1 := inst.Args[0].(Reg)
		_, reg2 := inst.Args[1].(Reg)
		if reg1 && reg2 && (inst.Opcode>>24 == 0xDC || inst.Opcode>>24 == 0xDE) {
			switch inst.Op {
			case FDIV:
				inst.Op = FDIVR
			case FDIVR:
				inst.Op = FDIV
			case FSUB:
				inst.Op = FSUBR
			case FSUBR:
				inst.Op = FSUB
			case FDIVP:
				inst.Op = FDIVRP
			case FDIVRP:
				inst.Op = FDIVP
			case FSUBP:
				inst.Op = FSUBRP
			case FSUBRP:
				inst.Op = FSUBP
			}
		}

	case MOVNTSD:
		// MOVNTSD is F2 0F 2B /r.
		// MOVNTSS is F3 0F 2B /r (supposedly; not in manuals).
		// Usually inner prefixes win for display,
		// so that F3 F2 0F 2B 11 is REP MOVNTSD
		// and F2 F3 0F 2B 11 is REPN MOVNTSS.
		// Libopcodes always prefers MOVNTSS regardless of prefix order.
		if countPrefix(&inst, 0xF3) > 0 {
			found := false
			for i := len(inst.Prefix) - 1; i >= 0; i-- {
				switch inst.Prefix[i] & 0xFF {
				case 0xF3:
					if !found {
						found = true
						inst.Prefix[i] |= PrefixImplicit
					}
				case 0xF2:
					inst.Prefix[i] &^= PrefixImplicit
				}
			}
			inst.Op = MOVNTSS
		}
	}

	// Add implicit arguments.
	switch inst.Op {
	case MONITOR:
		inst.Args[0] = EDX
		inst.Args[1] = ECX
		inst.Args[2] = EAX
		if inst.AddrSize == 16 {
			inst.Args[2] = AX
		}

	case MWAIT:
		if inst.Mode == 64 {
			inst.Args[0] = RCX
			inst.Args[1] = RAX
		} else {
			inst.Args[0] = ECX
			inst.Args[1] = EAX
		}
	}

	// Adjust which prefixes will be displayed.
	// The rule is to display all the prefixes not implied by
	// the usual instruction display, that is, all the prefixes
	// except the ones with PrefixImplicit set.
	// However, of course, there are exceptions to the rule.
	switch inst.Op {
	case CRC32:
		// CRC32 has a mandatory F2 prefix.
		// If there are multiple F2s and no F3s, the extra F2s do not print.
		// (And Decode has already marked them implicit.)
		// However, if there is an F3 anywhere, then the extra F2s do print.
		// If there are multiple F2 prefixes *and* an (ignored) F3,
		// then libopcodes prints the extra F2s as REPNs.
		if countPrefix(&inst, 0xF2) > 1 {
			unmarkImplicit(&inst, 0xF2)
			markLastImplicit(&inst, 0xF2)
		}

		// An unused data size override should probably be shown,
		// to distinguish DATA16 CRC32B from plain CRC32B,
		// but libopcodes always treats the final override as implicit
		// and the others as explicit.
		unmarkImplicit(&inst, PrefixDataSize)
		markLastImplicit(&inst, PrefixDataSize)

	case CVTSI2SD, CVTSI2SS:
		if !isMem(inst.Args[1]) {
			markLastImplicit(&inst, PrefixDataSize)
		}

	case CVTSD2SI, CVTSS2SI, CVTTSD2SI, CVTTSS2SI,
		ENTER, FLDENV, FNSAVE, FNSTENV, FRSTOR, LGDT, LIDT, LRET,
		POP, PUSH, RET, SGDT, SIDT, SYSRET, XBEGIN:
		markLastImplicit(&inst, PrefixDataSize)

	case LOOP, LOOPE, LOOPNE, MONITOR:
		markLastImplicit(&inst, PrefixAddrSize)

	case MOV:
		// The 16-bit and 32-bit forms of MOV Sreg, dst and MOV src, Sreg
		// cannot be distinguished when src or dst refers to memory, because
		// Sreg is always a 16-bit value, even when we're doing a 32-bit
		// instruction. Because the instruction tables distinguished these two,
		// any operand size prefix has been marked as used (to decide which
		// branch to take). Unmark it, so that it will show up in disassembly,
		// so that the reader can tell the size of memory operand.
		// up with the same arguments
		dst, _ := inst.Args[0].(Reg)
		src, _ := inst.Args[1].(Reg)
		if ES <= src && src <= GS && isMem(inst.Args[0]) || ES <= dst && dst <= GS && isMem(inst.Args[1]) {
			unmarkImplicit(&inst, PrefixDataSize)
		}

	case MOVDQU:
		if countPrefix(&inst, 0xF3) > 1 {
			unmarkImplicit(&inst, 0xF3)
			markLastImplicit(&inst, 0xF3)
		}

	case MOVQ2DQ:
		markLastImplicit(&inst, PrefixDataSize)

	case SLDT, SMSW, STR, FXRSTOR, XRSTOR, XSAVE, XSAVEOPT, CMPXCHG8B:
		if isMem(inst.Args[0]) {
			unmarkImplicit(&inst, PrefixDataSize)
		}

	case SYSEXIT:
		unmarkImplicit(&inst, PrefixDataSize)
	}

	if isCondJmp[inst.Op] || isLoop[inst.Op] || inst.Op == JCXZ || inst.Op == JECXZ || inst.Op == JRCXZ {
		if countPrefix(&inst, PrefixCS) > 0 && countPrefix(&inst, PrefixDS) > 0 {
			for i, p := range inst.Prefix {
				switch p & 0xFFF {
				case PrefixPN, PrefixPT:
					inst.Prefix[i] &= 0xF0FF // cut interpretation bits, producing original segment prefix
				}
			}
		}
	}

	// XACQUIRE/XRELEASE adjustment.
	if inst.Op == MOV {
		// MOV into memory is a candidate for turning REP into XRELEASE.
		// However, if the REP is followed by a REPN, that REPN blocks the
		// conversion.
		haveREPN := false
		for i := len(inst.Prefix) - 1; i >= 0; i-- {
			switch inst.Prefix[i] &^ PrefixIgnored {
			case PrefixREPN:
				haveREPN = true
			case PrefixXRELEASE:
				if haveREPN {
					inst.Prefix[i] = PrefixREP
				}
			}
		}
	}

	// We only format the final F2/F3 as XRELEASE/XACQUIRE.
	haveXA := false
	haveXR := false
	for i := len(inst.Prefix) - 1; i >= 0; i-- {
		switch inst.Prefix[i] &^ PrefixIgnored {
		case PrefixXRELEASE:
			if !haveXR {
				haveXR = true
			} else {
				inst.Prefix[i] = PrefixREP
			}

		case PrefixXACQUIRE:
			if !haveXA {
				haveXA = true
			} else {
				inst.Prefix[i] = PrefixREPN
			}
		}
	}

	// Determine opcode.
	op := strings.ToLower(inst.Op.String())
	if alt := gnuOp[inst.Op]; alt != "" {
		op = alt
	}

	// Determine opcode suffix.
	// Libopcodes omits the suffix if the width of the operation
	// can be inferred from a register arguments. For example,
	// add $1, %ebx has no suffix because you can tell from the
	// 32-bit register destination that it is a 32-bit add,
	// but in addl $1, (%ebx), the destination is memory, so the
	// size is not evident without the l suffix.
	needSuffix := true
SuffixLoop:
	for i, a := range inst.Args {
		if a == nil {
			break
		}
		switch a := a.(type) {
		case Reg:
			switch inst.Op {
			case MOVSX, MOVZX:
				continue

			case SHL, SHR, RCL, RCR, ROL, ROR, SAR:
				if i == 1 {
					// shift count does not tell us operand size
					continue
				}

			case CRC32:
				// The source argument does tell us operand size,
				// but libopcodes still always puts a suffix on crc32.
				continue

			case PUSH, POP:
				// Even though segment registers are 16-bit, push and pop
				// can save/restore them from 32-bit slots, so they
				// do not imply operand size.
				if ES <= a && a <= GS {
					continue
				}

			case CVTSI2SD, CVTSI2SS:
				// The integer register argument takes priority.
				if X0 <= a && a <= X15 {
					continue
				}
			}

			if AL <= a && a <= R15 || ES <= a && a <= GS || X0 <= a && a <= X15 || M0 <= a && a <= M7 {
				needSuffix = false
				break SuffixLoop
			}
		}
	}

	if needSuffix {
		switch inst.Op {
		case CMPXCHG8B, FLDCW, FNSTCW, FNSTSW, LDMXCSR, LLDT, LMSW, LTR, PCLMULQDQ,
			SETA, SETAE, SETB, SETBE, SETE, SETG, SETGE, SETL, SETLE, SETNE, SETNO, SETNP, SETNS, SETO, SETP, SETS,
			SLDT, SMSW, STMXCSR, STR, VERR, VERW:
			// For various reasons, libopcodes emits no suffix for these instructions.

		case CRC32:
			op += byteSizeSuffix(argBytes(&inst, inst.Args[1]))

		case LGDT, LIDT, SGDT, SIDT:
			op += byteSizeSuffix(inst.DataSize / 8)

		case MOVZX, MOVSX:
			// Integer size conversions get two suffixes.
			op = op[:4] + byteSizeSuffix(argBytes(&inst, inst.Args[1])) + byteSizeSuffix(argBytes(&inst, inst.Args[0]))

		case LOOP, LOOPE, LOOPNE:
			// Add w suffix to indicate use of CX register instead of ECX.
			if inst.AddrSize == 16 {
				op += "w"
			}

		case CALL, ENTER, JMP, LCALL, LEAVE, LJMP, LRET, RET, SYSRET, XBEGIN:
			// Add w suffix to indicate use of 16-bit target.
			// Exclude JMP rel8.
			if inst.Opcode>>24 == 0xEB {
				break
			}
			if inst.DataSize == 16 && inst.Mode != 16 {
				markLastImplicit(&inst, PrefixDataSize)
				op += "w"
			} else if inst.Mode == 64 {
				op += "q"
			}

		case FRSTOR, FNSAVE, FNSTENV, FLDENV:
			// Add s suffix to indicate shortened FPU state (I guess).
			if inst.DataSize == 16 {
				op += "s"
			}

		case PUSH, POP:
			if markLastImplicit(&inst, PrefixDataSize) {
				op += byteSizeSuffix(inst.DataSize / 8)
			} else if inst.Mode == 64 {
				op += "q"
			} else {
				op += byteSizeSuffix(inst.MemBytes)
			}

		default:
			if isFloat(inst.Op) {
				// I can't explain any of this, but it's what libopcodes does.
				switch inst.MemBytes {
				default:
					if (inst.Op == FLD || inst.Op == FSTP) && isMem(inst.Args[0]) {
						op += "t"
					}
				case 4:
					if isFloatInt(inst.Op) {
						op += "l"
					} else {
						op += "s"
					}
				case 8:
					if isFloatInt(inst.Op) {
						op += "ll"
					} else {
						op += "l"
					}
				}
				break
			}

			op += byteSizeSuffix(inst.MemBytes)
		}
	}

	// Adjust special case opcodes.
	switch inst.Op {
	case 0:
		if inst.Prefix[0] != 0 {
			return strings.ToLower(inst.Prefix[0].String())
		}

	case INT:
		if inst.Opcode>>24 == 0xCC {
			inst.Args[0] = nil
			op = "int3"
		}

	case CMPPS, CMPPD, CMPSD_XMM, CMPSS:
		imm, ok := inst.Args[2].(Imm)
		if ok && 0 <= imm && imm < 8 {
			inst.Args[2] = nil
			op = cmppsOps[imm] + op[3:]
		}

	case PCLMULQDQ:
		imm, ok := inst.Args[2].(Imm)
		if ok && imm&^0x11 == 0 {
			inst.Args[2] = nil
			op = pclmulqOps[(imm&0x10)>>3|(imm&1)]
		}

	case XLATB:
		if markLastImplicit(&inst, PrefixAddrSize) {
			op = "xlat" // not xlatb
		}
	}

	// Build list of argument strings.
	var (
		usedPrefixes bool     // segment prefixes consumed by Mem formatting
		args         []string // formatted arguments
	)
	for i, a := range inst.Args {
		if a == nil {
			break
		}
		switch inst.Op {
		case MOVSB, MOVSW, MOVSD, MOVSQ, OUTSB, OUTSW, OUTSD:
			if i == 0 {
				usedPrefixes = true // disable use of prefixes for first argument
			} else {
				usedPrefixes = false
			}
		}
		if a == Imm(1) && (inst.Opcode>>24)&^1 == 0xD0 {
			continue
		}
		args = append(args, gnuArg(&inst, pc, symname, a, &usedPrefixes))
	}

	// The default is to print the arguments in reverse Intel order.
	// A few instructions inhibit this behavior.
	switch inst.Op {
	case BOUND, LCALL, ENTER, LJMP:
		// no reverse
	default:
		// reverse args
		for i, j := 0, len(args)-1; i < j; i, j = i+1, j-1 {
			args[i], args[j] = args[j], args[i]
		}
	}

	// Build prefix string.
	// Must be after argument formatting, which can turn off segment prefixes.
	var (
		prefix       = "" // output string
		numAddr      = 0
		numData      = 0
		implicitData = false
	)
	for _, p := range inst.Prefix {
		if p&0xFF == PrefixDataSize && p&PrefixImplicit != 0 {
			implicitData = true
		}
	}
	for _, p := range inst.Prefix {
		if p == 0 || p.IsVEX() {
			break
		}
		if p&PrefixImplicit != 0 {
			continue
		}
		switch p &^ (PrefixIgnored | PrefixInvalid) {
		default:
			if p.IsREX() {
				if p&0xFF == PrefixREX {
					prefix += "rex "
				} else {
					prefix += "rex." + p.String()[4:] + " "
				}
				break
			}
			prefix += strings.ToLower(p.String()) + " "

		case PrefixPN:
			op += ",pn"
			continue

		case PrefixPT:
			op += ",pt"
			continue

		case PrefixAddrSize, PrefixAddr16, PrefixAddr32:
			// For unknown reasons, if the addr16 prefix is repeated,
			// libopcodes displays all but the last as addr32, even though
			// the addressing form used in a memory reference is clearly
			// still 16-bit.
			n := 32
			if inst.Mode == 32 {
				n = 16
			}
			numAddr++
			if countPrefix(&inst, PrefixAddrSize) > numAddr {
				n = inst.Mode
			}
			prefix += fmt.Sprintf("addr%d ", n)
			continue

		case PrefixData16, PrefixData32:
			if implicitData && countPrefix(&inst, PrefixDataSize) > 1 {
				// Similar to the addr32 logic above, but it only kicks in
				// when something used the data size prefix (one is implicit).
				n := 16
				if inst.Mode == 16 {
					n = 32
				}
				numData++
				if countPrefix(&inst, PrefixDataSize) > numData {
					if inst.Mode == 16 {
						n = 16
					} else {
						n = 32
					}
				}
				prefix += fmt.Sprintf("data%d ", n)
				continue
			}
			prefix += strings.ToLower(p.String()) + " "
		}
	}

	// Finally! Put it all together.
	text := prefix + op
	if args != nil {
		text += " "
		// Indirect call/jmp gets a star to distinguish from direct jump address.
		if (inst.Op == CALL || inst.Op == JMP || inst.Op == LJMP || inst.Op == LCALL) && (isMem(inst.Args[0]) || isReg(inst.Args[0])) {
			text += "*"
		}
		text += strings.Join(args, ",")
	}
	return text
}

// gnuArg returns the GNU syntax for the argument x from the instruction inst.
// If *usedPrefixes is false and x is a Mem, then the formatting
// includes any segment prefixes and sets *usedPrefixes to true.
func gnuArg(inst *Inst, pc uint64, symname SymLookup, x Arg, usedPrefixes *bool) string {
	if x == nil {
		return "<nil>"
	}
	switch x := x.(type) {
	case Reg:
		switch inst.Op {
		case CVTSI2SS, CVTSI2SD, CVTSS2SI, CVTSD2SI, CVTTSD2SI, CVTTSS2SI:
			if inst.DataSize == 16 && EAX <= x && x <= R15L {
				x -= EAX - AX
			}

		case IN, INSB, INSW, INSD, OUT, OUTSB, OUTSW, OUTSD:
			// DX is the port, but libopcodes prints it as if it were a memory reference.
			if x == DX {
				return "(%dx)"
			}
		case VMOVDQA, VMOVDQU, VMOVNTDQA, VMOVNTDQ:
			return strings.Replace(gccRegName[x], "xmm", "ymm", -1)
		}
		return gccRegName[x]
	case Mem:
		if s, disp := memArgToSymbol(x, pc, inst.Len, symname); s != "" {
			suffix := ""
			if disp != 0 {
				suffix = fmt.Sprintf("%+d", disp)
			}
			return fmt.Sprintf("%s%s", s, suffix)
		}
		seg := ""
		var haveCS, haveDS, haveES, haveFS, haveGS, haveSS bool
		switch x.Segment {
		case CS:
			haveCS = true
		case DS:
			haveDS = true
		case ES:
			haveES = true
		case FS:
			haveFS = true
		case GS:
			haveGS = true
		case SS:
			haveSS = true
		}
		switch inst.Op {
		case INSB, INSW, INSD, STOSB, STOSW, STOSD, STOSQ, SCASB, SCASW, SCASD, SCASQ:
			// These do not accept segment prefixes, at least in the GNU rendering.
		default:
			if *usedPrefixes {
				break
			}
			for i := len(inst.Prefix) - 1; i >= 0; i-- {
				p := inst.Prefix[i] &^ PrefixIgnored
				if p == 0 {
					continue
				}
				switch p {
				case PrefixCS:
					if !haveCS {
						haveCS = true
						inst.Prefix[i] |= PrefixImplicit
					}
				case PrefixDS:
					if !haveDS {
						haveDS = true
						inst.Prefix[i] |= PrefixImplicit
					}
				case PrefixES:
					if !haveES {
						haveES = true
						inst.Prefix[i] |= PrefixImplicit
					}
				case PrefixFS:
					if !haveFS {
						haveFS = true
						inst.Prefix[i] |= PrefixImplicit
					}
				case PrefixGS:
					if !haveGS {
						haveGS = true
						inst.Prefix[i] |= PrefixImplicit
					}
				case PrefixSS:
					if !haveSS {
						haveSS = true
						inst.Prefix[i] |= PrefixImplicit
					}
				}
			}
			*usedPrefixes = true
		}
		if haveCS {
			seg += "%cs:"
		}
		if haveDS {
			seg += "%ds:"
		}
		if haveSS {
			seg += "%ss:"
		}
		if haveES {
			seg += "%es:"
		}
		if haveFS {
			seg += "%fs:"
		}
		if haveGS {
			seg += "%gs:"
		}
		disp := ""
		if x.Disp != 0 {
			disp = fmt.Sprintf("%#x", x.Disp)
		}
		if x.Scale == 0 || x.Index == 0 && x.Scale == 1 && (x.Base == ESP || x.Base == RSP || x.Base == 0 && inst.Mode == 64) {
			if x.Base == 0 {
				return seg + disp
			}
			return fmt.Sprintf("%s%s(%s)", seg, disp, gccRegName[x.Base])
		}
		base := gccRegName[x.Base]
		if x.Base == 0 {
			base = ""
		}
		index := gccRegName[x.Index]
		if x.Index == 0 {
			if inst.AddrSize == 64 {
				index = "%riz"
			} else {
				index = "%eiz"
			}
		}
		if AX <= x.Base && x.Base <= DI {
			// 16-bit addressing - no scale
			return fmt.Sprintf("%s%s(%s,%s)", seg, disp, base, index)
		}
		return fmt.Sprintf("%s%s(%s,%s,%d)", seg, disp, base, index, x.Scale)
	case Rel:
		if pc == 0 {
			return fmt.Sprintf(".%+#x", int64(x))
		} else {
			addr := pc + uint64(inst.Len) + uint64(x)
			if s, base := symname(addr); s != "" && addr == base {
				return fmt.Sprintf("%s", s)
			} else {
				addr := pc + uint64(inst.Len) + uint64(x)
				return fmt.Sprintf("%#x", addr)
			}
		}
	case Imm:
		if s, base := symname(uint64(x)); s != "" {
			suffix := ""
			if uint64(x) != base {
				suffix = fmt.Sprintf("%+d", uint64(x)-base)
			}
			return fmt.Sprintf("$%s%s", s, suffix)
		}
		if inst.Mode == 32 {
			return fmt.Sprintf("$%#x", uint32(x))
		}
		return fmt.Sprintf("$%#x", int64(x))
	}
	return x.String()
}

var gccRegName = [...]string{
	0:    "REG0",
	AL:   "%al",
	CL:   "%cl",
	BL:   "%bl",
	DL:   "%dl",
	AH:   "%ah",
	CH:   "%ch",
	BH:   "%bh",
	DH:   "%dh",
	SPB:  "%spl",
	BPB:  "%bpl",
	SIB:  "%sil",
	DIB:  "%dil",
	R8B:  "%r8b",
	R9B:  "%r9b",
	R10B: "%r10b",
	R11B: "%r11b",
	R12B: "%r12b",
	R13B: "%r13b",
	R14B: "%r14b",
	R15B: "%r15b",
	AX:   "%ax",
	CX:   "%cx",
	BX:   "%bx",
	DX:   "%dx",
	SP:   "%sp",
	BP:   "%bp",
	SI:   "%si",
	DI:   "%di",
	R8W:  "%r8w",
	R9W:  "%r9w",
	R10W: "%r10w",
	R11W: "%r11w",
	R12W: "%r12w",
	R13W: "%r13w",
	R14W: "%r14w",
	R15W: "%r15w",
	EAX:  "%eax",
	ECX:  "%ecx",
	EDX:  "%edx",
	EBX:  "%ebx",
	ESP:  "%esp",
	EBP:  "%ebp",
	ESI:  "%esi",
	EDI:  "%edi",
	R8L:  "%r8d",
	R9L:  "%r9d",
	R10L: "%r10d",
	R11L: "%r11d",
	R12L: "%r12d",
	R13L: "%r13d",
	R14L: "%r14d",
	R15L: "%r15d",
	RAX:  "%rax",
	RCX:  "%rcx",
	RDX:  "%rdx",
	RBX:  "%rbx",
	RSP:  "%rsp",
	RBP:  "%rbp",
	RSI:  "%rsi",
	RDI:  "%rdi",
	R8:   "%r8",
	R9:   "%r9",
	R10:  "%r10",
	R11:  "%r11",
	R12:  "%r12",
	R13:  "%r13",
	R14:  "%r14",
	R15:  "%r15",
	IP:   "%ip",
	EIP:  "%eip",
	RIP:  "%rip",
	F0:   "%st",
	F1:   "%st(1)",
	F2:   "%st(2)",
	F3:   "%st(3)",
	F4:   "%st(4)",
	F5:   "%st(5)",
	F6:   "%st(6)",
	F7:   "%st(7)",
	M0:   "%mm0",
	M1:   "%mm1",
	M2:   "%mm2",
	M3:   "%mm3",
	M4:   "%mm4",
	M5:   "%mm5",
	M6:   "%mm6",
	M7:   "%mm7",
	X0:   "%xmm0",
	X1:   "%xmm1",
	X2:   "%xmm2",
	X3:   "%xmm3",
	X4:   "%xmm4",
	X5:   "%xmm5",
	X6:   "%xmm6",
	X7:   "%xmm7",
	X8:   "%xmm8",
	X9:   "%xmm9",
	X10:  "%xmm10",
	X11:  "%xmm11",
	X12:  "%xmm12",
	X13:  "%xmm13",
	X14:  "%xmm14",
	X15:  "%xmm15",
	CS:   "%cs",
	SS:   "%ss",
	DS:   "%ds",
	ES:   "%es",
	FS:   "%fs",
	GS:   "%gs",
	GDTR: "%gdtr",
	IDTR: "%idtr",
	LDTR: "%ldtr",
	MSW:  "%msw",
	TASK: "%task",
	CR0:  "%cr0",
	CR1:  "%cr1",
	CR2:  "%cr2",
	CR3:  "%cr3",
	CR4:  "%cr4",
	CR5:  "%cr5",
	CR6:  "%cr6",
	CR7:  "%cr7",
	CR8:  "%cr8",
	CR9:  "%cr9",
	CR10: "%cr10",
	CR11: "%cr11",
	CR12: "%cr12",
	CR13: "%cr13",
	CR14: "%cr14",
	CR15: "%cr15",
	DR0:  "%db0",
	DR1:  "%db1",
	DR2:  "%db2",
	DR3:  "%db3",
	DR4:  "%db4",
	DR5:  "%db5",
	DR6:  "%db6",
	DR7:  "%db7",
	TR0:  "%tr0",
	TR1:  "%tr1",
	TR2:  "%tr2",
	TR3:  "%tr3",
	TR4:  "%tr4",
	TR5:  "%tr5",
	TR6:  "%tr6",
	TR7:  "%tr7",
}

var gnuOp = map[Op]string{
	CBW:       "cbtw",
	CDQ:       "cltd",
	CMPSD:     "cmpsl",
	CMPSD_XMM: "cmpsd",
	CWD:       "cwtd",
	CWDE:      "cwtl",
	CQO:       "cqto",
	INSD:      "insl",
	IRET:      "iretw",
	IRETD:     "iret",
	IRETQ:     "iretq",
	LODSB:     "lods",
	LODSD:     "lods",
	LODSQ:     "lods",
	LODSW:     "lods",
	MOVSD:     "movsl",
	MOVSD_XMM: "movsd",
	OUTSD:     "outsl",
	POPA:      "popaw",
	POPAD:     "popa",
	POPF:      "popfw",
	POPFD:     "popf",
	PUSHA:     "pushaw",
	PUSHAD:    "pusha",
	PUSHF:     "pushfw",
	PUSHFD:    "pushf",
	SCASB:     "scas",
	SCASD:     "scas",
	SCASQ:     "scas",
	SCASW:     "scas",
	STOSB:     "stos",
	STOSD:     "stos",
	STOSQ:     "stos",
	STOSW:     "stos",
	XLATB:     "xlat",
}

var cmppsOps = []string{
	"cmpeq",
	"cmplt",
	"cmple",
	"cmpunord",
	"cmpneq",
	"cmpnlt",
	"cmpnle",
	"cmpord",
}

var pclmulqOps = []string{
	"pclmullqlqdq",
	"pclmulhqlqdq",
	"pclmullqhqdq",
	"pclmulhqhqdq",
}

func countPrefix(inst *Inst, target Prefix) int {
	n := 0
	for _, p := range inst.Prefix {
		if p&0xFF == target&0xFF {
			n++
		}
	}
	return n
}

func markLastImplicit(inst *Inst, prefix Prefix) bool {
	for i := len(inst.Prefix) - 1; i >= 0; i-- {
		p := inst.Prefix[i]
		if p&0xFF == prefix {
			inst.Prefix[i] |= PrefixImplicit
			return true
		}
	}
	return false
}

func unmarkImplicit(inst *Inst, prefix Prefix) {
	for i := len(inst.Prefix) - 1; i >= 0; i-- {
		p := inst.Prefix[i]
		if p&0xFF == prefix {
			inst.Prefix[i] &^= PrefixImplicit
		}
	}
}

func byteSizeSuffix(b int) string {
	switch b {
	case 1:
		return "b"
	case 2:
		return "w"
	case 4:
		return "l"
	case 8:
		return "q"
	}
	return ""
}

func argBytes(inst *Inst, arg Arg) int {
	if isMem(arg) {
		return inst.MemBytes
	}
	return regBytes(arg)
}

func isFloat(op Op) bool {
	switch op {
	case FADD, FCOM, FCOMP, FDIV, FDIVR, FIADD, FICOM, FICOMP, FIDIV, FIDIVR, FILD, FIMUL, FIST, FISTP, FISTTP, FISUB, FISUBR, FLD, FMUL, FST, FSTP, FSUB, FSUBR:
		return true
	}
	return false
}

func isFloatInt(op Op) bool {
	switch op {
	case FIADD, FICOM, FICOMP, FIDIV, FIDIVR, FILD, FIMUL, FIST, FISTP, FISTTP, FISUB, FISUBR:
		return true
	}
	return false
}
