// Copyright 2014 The Go Authors.  All rights reserved.
// Use of this source code is governed by a BSD-style
// license that can be found in the LICENSE file.

package x86asm

import (
	"fmt"
	"strings"
)

type SymLookup func(uint64) (string, uint64)

// GoSyntax returns the Go assembler syntax for the instruction.
// The syntax was originally defined by Plan 9.
// The pc is the program counter of the instruction, used for expanding
// PC-relative addresses into absolute ones.
// The symname function queries the symbol table for the program
// being disassembled. Given a target address it returns the name and base
// address of the symbol containing the target, if any; otherwise it returns "", 0.
func GoSyntax(inst Inst, pc uint64, symname SymLookup) string {
	if symname == nil {
		symname = func(uint64) (string, uint64) { return "", 0 }
	}
	var args []string
	for i := len(inst.Args) - 1; i >= 0; i-- {
		a := inst.Args[i]
		if a == nil {
			continue
		}
		args = append(args, plan9Arg(&inst, pc, symname, a))
	}

	var rep string
	var last Prefix
	for _, p := range inst.Prefix {
		if p == 0 || p.IsREX() || p.IsVEX() {
			break
		}

		switch {
		// Don't show prefixes implied by the instruction text.
		case p&0xFF00 == PrefixImplicit:
			continue
		// Only REP and REPN are recognized repeaters. Plan 9 syntax
		// treats them as separate opcodes.
		case p&0xFF == PrefixREP:
			rep = "REP; "
		case p&0xFF == PrefixREPN:
			rep = "REPNE; "
		default:
			last = p
		}
	}

	prefix := ""
	switch last & 0xFF {
	case 0, 0x66, 0x67:
		// ignore
	default:
		prefix += last.String() + " "
	}

	op := inst.Op.String()
	if plan9Suffix[inst.Op] {
		s := inst.DataSize
		if inst.MemBytes != 0 {
			s = inst.MemBytes * 8
		} else if inst.Args[1] == nil { // look for register-only 64-bit instruction, like PUSHQ AX
			if r, ok := inst.Args[0].(Reg); ok && RAX <= r && r <= R15 {
				s = 64
			}
		}
		switch s {
		case 8:
			op += "B"
		case 16:
			op += "W"
		case 32:
			op += "L"
		case 64:
			op += "Q"
		}
	}

	if inst.Op == CMP {
		// Use reads-left-to-right ordering for comparisons.
		// See issue 60920.
		args[0], args[1] = args[1], args[0]
	}

	if args != nil {
		op += " " + strings.Join(args, ", ")
	}

	return rep + prefix + op
}

func plan9Arg(inst *Inst, pc uint64, symname func(uint64) (string, uint64), arg Arg) string {
	switch a := arg.(type) {
	case Reg:
		return plan9Reg[a]
	case Rel:
		if pc == 0 {
			break
		}
		// If the absolute address is the start of a symbol, use the name.
		// Otherwise use the raw address, so that things like relative
		// jumps show up as JMP 0x123 instead of JMP f+10(SB).
		// It is usually easier to search for 0x123 than to do the mental
		// arithmetic to find f+10.
		addr := pc + uint64(inst.Len) + uint64(a)
		if s, base := symname(addr); s != "" && addr == base {
			return fmt.Sprintf("%s(SB)", s)
		}
		return fmt.Sprintf("%#x", addr)

	case Imm:
		if s, base := symname(uint64(a)); s != "" {
			suffix := ""
			if uint64(a) != base {
				suffix = fmt.Sprintf("%+d", uint64(a)-base)
			}
			return fmt.Sprintf("$%s%s(SB)", s, suffix)
		}
		if inst.Mode == 32 {
			return fmt.Sprintf("$%#x", uint32(a))
		}
		if Imm(int32(a)) == a {
			return fmt.Sprintf("$%#x", int64(a))
		}
		return fmt.Sprintf("$%#x", uint64(a))
	case Mem:
		if s, disp := memArgToSymbol(a, pc, inst.Len, symname); s != "" {
			suffix := ""
			if disp != 0 {
				suffix = fmt.Sprintf("%+d", disp)
			}
			return fmt.Sprintf("%s%s(SB)", s, suffix)
		}
		s := ""
		if a.Segment != 0 {
			s += fmt.Sprintf("%s:", plan9Reg[a.Segment])
		}
		if a.Disp != 0 {
			s += fmt.Sprintf("%#x", a.Disp)
		} else {
			s += "0"
		}
		if a.Base != 0 {
			s += fmt.Sprintf("(%s)", plan9Reg[a.Base])
		}
		if a.Index != 0 && a.Scale != 0 {
			s += fmt.Sprintf("(%s*%d)", plan9Reg[a.Index], a.Scale)
		}
		return s
	}
	return arg.String()
}

func memArgToSymbol(a Mem, pc uint64, instrLen int, symname SymLookup) (string, int64) {
	if a.Segment != 0 || a.Disp == 0 || a.Index != 0 || a.Scale != 0 {
		return "", 0
	}

	var disp uint64
	switch a.Base {
	case IP, EIP, RIP:
		disp = uint64(a.Disp + int64(pc) + int64(instrLen))
	case 0:
		disp = uint64(a.Disp)
	default:
		return "", 0
	}

	s, base := symname(disp)
	return s, int64(disp) - int64(base)
}

var plan9Suffix = [maxOp + 1]bool{
	ADC:       true,
	ADD:       true,
	AND:       true,
	BSF:       true,
	BSR:       true,
	BT:        true,
	BTC:       true,
	BTR:       true,
	BTS:       true,
	CMP:       true,
	CMPXCHG:   true,
	CVTSI2SD:  true,
	CVTSI2SS:  true,
	CVTSD2SI:  true,
	CVTSS2SI:  true,
	CVTTSD2SI: true,
	CVTTSS2SI: true,
	DEC:       true,
	DIV:       true,
	FLDENV:    true,
	FRSTOR:    true,
	IDIV:      true,
	IMUL:      true,
	IN:        true,
	INC:       true,
	LEA:       true,
	MOV:       true,
	MOVNTI:    true,
	MUL:       true,
	NEG:       true,
	NOP:       true,
	NOT:       true,
	OR:        true,
	OUT:       true,
	POP:       true,
	POPA:      true,
	POPCNT:    true,
	PUSH:      true,
	PUSHA:     true,
	RCL:       true,
	RCR:       true,
	ROL:       true,
	ROR:       true,
	SAR:       true,
	SBB:       true,
	SHL:       true,
	SHLD:      true,
	SHR:       true,
	SHRD:      true,
	SUB:       true,
	TEST:      true,
	XADD:      true,
	XCHG:      true,
	XOR:       true,
}

var plan9Reg = [...]string{
	AL:   "AL",
	CL:   "CL",
	BL:   "BL",
	DL:   "DL",
	AH:   "AH",
	CH:   "CH",
	BH:   "BH",
	DH:   "DH",
	SPB:  "SP",
	BPB:  "BP",
	SIB:  "SI",
	DIB:  "DI",
	R8B:  "R8",
	R9B:  "R9",
	R10B: "R10",
	R11B: "R11",
	R12B: "R12",
	R13B: "R13",
	R14B: "R14",
	R15B: "R15",
	AX:   "AX",
	CX:   "CX",
	BX:   "BX",
	DX:   "DX",
	SP:   "SP",
	BP:   "BP",
	SI:   "SI",
	DI:   "DI",
	R8W:  "R8",
	R9W:  "R9",
	R10W: "R10",
	R11W: "R11",
	R12W: "R12",
	R13W: "R13",
	R14W: "R14",
	R15W: "R15",
	EAX:  "AX",
	ECX:  "CX",
	EDX:  "DX",
	EBX:  "BX",
	ESP:  "SP",
	EBP:  "BP",
	ESI:  "SI",
	EDI:  "DI",
	R8L:  "R8",
	R9L:  "R9",
	R10L: "R10",
	R11L: "R11",
	R12L: "R12",
	R13L: "R13",
	R14L: "R14",
	R15L: "R15",
	RAX:  "AX",
	RCX:  "CX",
	RDX:  "DX",
	RBX:  "BX",
	RSP:  "SP",
	RBP:  "BP",
	RSI:  "SI",
	RDI:  "DI",
	R8:   "R8",
	R9:   "R9",
	R10:  "R10",
	R11:  "R11",
	R12:  "R12",
	R13:  "R13",
	R14:  "R14",
	R15:  "R15",
	IP:   "IP",
	EIP:  "IP",
	RIP:  "IP",
	F0:   "F0",
	F1:   "F1",
	F2:   "F2",
	F3:   "F3",
	F4:   "F4",
	F5:   "F5",
	F6:   "F6",
	F7:   "F7",
	M0:   "M0",
	M1:   "M1",
	M2:   "M2",
	M3:   "M3",
	M4:   "M4",
	M5:   "M5",
	M6:   "M6",
	M7:   "M7",
	X0:   "X0",
	X1:   "X1",
	X2:   "X2",
	X3:   "X3",
	X4:   "X4",
	X5:   "X5",
	X6:   "X6",
	X7:   "X7",
	X8:   "X8",
	X9:   "X9",
	X10:  "X10",
	X11:  "X11",
	X12:  "X12",
	X13:  "X13",
	X14:  "X14",
	X15:  "X15",
	CS:   "CS",
	SS:   "SS",
	DS:   "DS",
	ES:   "ES",
	FS:   "FS",
	GS:   "GS",
	GDTR: "GDTR",
	IDTR: "IDTR",
	LDTR: "LDTR",
	MSW:  "MSW",
	TASK: "TASK",
	CR0:  "CR0",
	CR1:  "CR1",
	CR2:  "CR2",
	CR3:  "CR3",
	CR4:  "CR4",
	CR5:  "CR5",
	CR6:  "CR6",
	CR7:  "CR7",
	CR8:  "CR8",
	CR9:  "CR9",
	CR10: "CR10",
	CR11: "CR11",
	CR12: "CR12",
	CR13: "CR13",
	CR14: "CR14",
	CR15: "CR15",
	DR0:  "DR0",
	DR1:  "DR1",
	DR2:  "DR2",
	DR3:  "DR3",
	DR4:  "DR4",
	DR5:  "DR5",
	DR6:  "DR6",
	DR7:  "DR7",
	DR8:  "DR8",
	DR9:  "DR9",
	DR10: "DR10",
	DR11: "DR11",
	DR12: "DR12",
	DR13: "DR13",
	DR14: "DR14",
	DR15: "DR15",
	TR0:  "TR0",
	TR1:  "TR1",
	TR2:  "TR2",
	TR3:  "TR3",
	TR4:  "TR4",
	TR5:  "TR5",
	TR6:  "TR6",
	TR7:  "TR7",
}
