// Copyright 2014 The Go Authors.  All rights reserved.
// Use of this source code is governed by a BSD-style
// license that can be found in the LICENSE file.

package x86asm

import (
	"fmt"
	"strings"
)

// IntelSyntax returns the Intel assembler syntax for the instruction, as defined by Intel's XED tool.
func IntelSyntax(inst Inst, pc uint64, symname SymLookup) string {
	if symname == nil {
		symname = func(uint64) (string, uint64) { return "", 0 }
	}

	var iargs []Arg
	for _, a := range inst.Args {
		if a == nil {
			break
		}
		iargs = append(iargs, a)
	}

	switch inst.Op {
	case INSB, INSD, INSW, OUTSB, OUTSD, OUTSW, LOOPNE, JCXZ, JECXZ, JRCXZ, LOOP, LOOPE, MOV, XLATB:
		if inst.Op == MOV && (inst.Opcode>>16)&0xFFFC != 0x0F20 {
			break
		}
		for i, p := range inst.Prefix {
			if p&0xFF == PrefixAddrSize {
				inst.Prefix[i] &^= PrefixImplicit
			}
		}
	}

	switch inst.Op {
	case MOV:
		dst, _ := inst.Args[0].(Reg)
		src, _ := inst.Args[1].(Reg)
		if ES <= dst && dst <= GS && EAX <= src && src <= R15L {
			src -= EAX - AX
			iargs[1] = src
		}
		if ES <= dst && dst <= GS && RAX <= src && src <= R15 {
			src -= RAX - AX
			iargs[1] = src
		}

		if inst.Opcode>>24&^3 == 0xA0 {
			for i, p := range inst.Prefix {
				if p&0xFF == PrefixAddrSize {
					inst.Prefix[i] |= PrefixImplicit
				}
			}
		}
	}

	switch inst.Op {
	case AAM, AAD:
		if imm, ok := iargs[0].(Imm); ok {
			if inst.DataSize == 32 {
				iargs[0] = Imm(uint32(int8(imm)))
			} else if inst.DataSize == 16 {
				iargs[0] = Imm(uint16(int8(imm)))
			}
		}

	case PUSH:
		if imm, ok := iargs[0].(Imm); ok {
			iargs[0] = Imm(uint32(imm))
		}
	}

	for _, p := range inst.Prefix {
		if p&PrefixImplicit != 0 {
			for j, pj := range inst.Prefix {
				if pj&0xFF == p&0xFF {
					inst.Prefix[j] |= PrefixImplicit
				}
			}
		}
	}

	if inst.Op != 0 {
		for i, p := range inst.Prefix {
			switch p &^ PrefixIgnored {
			case PrefixData16, PrefixData32, PrefixCS, PrefixDS, PrefixES, PrefixSS:
				inst.Prefix[i] |= PrefixImplicit
			}
			if p.IsREX() {
				inst.Prefix[i] |= PrefixImplicit
			}
			if p.IsVEX() {
				if p == PrefixVEX3Bytes {
					inst.Prefix[i+2] |= PrefixImplicit
				}
				inst.Prefix[i] |= PrefixImplicit
				inst.Prefix[i+1] |= PrefixImplicit
			}
		}
	}

	if isLoop[inst.Op] || inst.Op == JCXZ || inst.Op == JECXZ || inst.Op == JRCXZ {
		for i, p := range inst.Prefix {
			if p == PrefixPT || p == PrefixPN {
				inst.Prefix[i] |= PrefixImplicit
			}
		}
	}

	switch inst.Op {
	case AAA, AAS, CBW, CDQE, CLC, CLD, CLI, CLTS, CMC, CPUID, CQO, CWD, DAA, DAS,
		FDECSTP, FINCSTP, FNCLEX, FNINIT, FNOP, FWAIT, HLT,
		ICEBP, INSB, INSD, INSW, INT, INTO, INVD, IRET, IRETQ,
		LAHF, LEAVE, LRET, MONITOR, MWAIT, NOP, OUTSB, OUTSD, OUTSW,
		PAUSE, POPA, POPF, POPFQ, PUSHA, PUSHF, PUSHFQ,
		RDMSR, RDPMC, RDTSC, RDTSCP, RET, RSM,
		SAHF, STC, STD, STI, SYSENTER, SYSEXIT, SYSRET,
		UD2, WBINVD, WRMSR, XEND, XLATB, XTEST:

		if inst.Op == NOP && inst.Opcode>>24 != 0x90 {
			break
		}
		if inst.Op == RET && inst.Opcode>>24 != 0xC3 {
			break
		}
		if inst.Op == INT && inst.Opcode>>24 != 0xCC {
			break
		}
		if inst.Op == LRET && inst.Opcode>>24 != 0xcb {
			break
		}
		for i, p := range inst.Prefix {
			if p&0xFF == PrefixDataSize {
				inst.Prefix[i] &^= PrefixImplicit | PrefixIgnored
			}
		}

	case 0:
		// ok
	}

	switch inst.Op {
	case INSB, INSD, INSW, OUTSB, OUTSD, OUTSW, MONITOR, MWAIT, XLATB:
		iargs = nil

	case STOSB, STOSW, STOSD, STOSQ:
		iargs = iargs[:1]

	case LODSB, LODSW, LODSD, LODSQ, SCASB, SCASW, SCASD, SCASQ:
		iargs = iargs[1:]
	}

	const (
		haveData16 = 1 << iota
		haveData32
		haveAddr16
		haveAddr32
		haveXacquire
		haveXrelease
		haveLock
		haveHintTaken
		haveHintNotTaken
		haveBnd
	)
	var prefixBits uint32
	prefix := ""
	for _, p := range inst.Prefix {
		if p == 0 {
			break
		}
		if p&0xFF == 0xF3 {
			prefixBits &^= haveBnd
		}
		if p&(PrefixImplicit|PrefixIgnored) != 0 {
			continue
		}
		switch p {
		default:
			prefix += strings.ToLower(p.String()) + " "
		case PrefixCS, PrefixDS, PrefixES, PrefixFS, PrefixGS, PrefixSS:
			if inst.Op == 0 {
				prefix += strings.ToLower(p.String()) + " "
			}
		case PrefixREPN:
			prefix += "repne "
		case PrefixLOCK:
			prefixBits |= haveLock
		case PrefixData16, PrefixDataSize:
			prefixBits |= haveData16
		case PrefixData32:
			prefixBits |= haveData32
		case PrefixAddrSize, PrefixAddr16:
			prefixBits |= haveAddr16
		case PrefixAddr32:
			prefixBits |= haveAddr32
		case PrefixXACQUIRE:
			prefixBits |= haveXacquire
		case PrefixXRELEASE:
			prefixBits |= haveXrelease
		case PrefixPT:
			prefixBits |= haveHintTaken
		case PrefixPN:
			prefixBits |= haveHintNotTaken
		case PrefixBND:
			prefixBits |= haveBnd
		}
	}
	switch inst.Op {
	case JMP:
		if inst.Opcode>>24 == 0xEB {
			prefixBits &^= haveBnd
		}
	case RET, LRET:
		prefixBits &^= haveData16 | haveData32
	}

	if prefixBits&haveXacquire != 0 {
		prefix += "xacquire "
	}
	if prefixBits&haveXrelease != 0 {
		prefix += "xrelease "
	}
	if prefixBits&haveLock != 0 {
		prefix += "lock "
	}
	if prefixBits&haveBnd != 0 {
		prefix += "bnd "
	}
	if prefixBits&haveHintTaken != 0 {
		prefix += "hint-taken "
	}
	if prefixBits&haveHintNotTaken != 0 {
		prefix += "hint-not-taken "
	}
	if prefixBits&haveAddr16 != 0 {
		prefix += "addr16 "
	}
	if prefixBits&haveAddr32 != 0 {
		prefix += "addr32 "
	}
	if prefixBits&haveData16 != 0 {
		prefix += "data16 "
	}
	if prefixBits&haveData32 != 0 {
		prefix += "data32 "
	}

	if inst.Op == 0 {
		if prefix == "" {
			return "<no instruction>"
		}
		return prefix[:len(prefix)-1]
	}

	var args []string
	for _, a := range iargs {
		if a == nil {
			break
		}
		args = append(args, intelArg(&inst, pc, symname, a))
	}

	var op string
	switch inst.Op {
	case NOP:
		if inst.Opcode>>24 == 0x0F {
			if inst.DataSize == 16 {
				args = append(args, "ax")
			} else {
				args = append(args, "eax")
			}
		}

	case BLENDVPD, BLENDVPS, PBLENDVB:
		args = args[:2]

	case INT:
		if inst.Opcode>>24 == 0xCC {
			args = nil
			op = "int3"
		}

	case LCALL, LJMP:
		if len(args) == 2 {
			args[0], args[1] = args[1], args[0]
		}

	case FCHS, FABS, FTST, FLDPI, FLDL2E, FLDLG2, F2XM1, FXAM, FLD1, FLDL2T, FSQRT, FRNDINT, FCOS, FSIN:
		if len(args) == 0 {
			args = append(args, "st0")
		}

	case FPTAN, FSINCOS, FUCOMPP, FCOMPP, FYL2X, FPATAN, FXTRACT, FPREM1, FPREM, FYL2XP1, FSCALE:
		if len(args) == 0 {
			args = []string{"st0", "st1"}
		}

	case FST, FSTP, FISTTP, FIST, FISTP, FBSTP:
		if len(args) == 1 {
			args = append(args, "st0")
		}

	case FLD, FXCH, FCOM, FCOMP, FIADD, FIMUL, FICOM, FICOMP, FISUBR, FIDIV, FUCOM, FUCOMP, FILD, FBLD, FADD, FMUL, FSUB, FSUBR, FISUB, FDIV, FDIVR, FIDIVR:
		if len(args) == 1 {
			args = []string{"st0", args[0]}
		}

	case MASKMOVDQU, MASKMOVQ, XLATB, OUTSB, OUTSW, OUTSD:
	FixSegment:
		for i := len(inst.Prefix) - 1; i >= 0; i-- {
			p := inst.Prefix[i] & 0xFF
			switch p {
			case PrefixCS, PrefixES, PrefixFS, PrefixGS, PrefixSS:
				if inst.Mode != 64 || p == PrefixFS || p == PrefixGS {
					args = append(args, strings.ToLower((inst.Prefix[i] & 0xFF).String()))
					break FixSegment
				}
			case PrefixDS:
				if inst.Mode != 64 {
					break FixSegment
				}
			}
		}
	}

	if op == "" {
		op = intelOp[inst.Op]
	}
	if op == "" {
		op = strings.ToLower(inst.Op.String())
	}
	if args != nil {
		op += " " + strings.Join(args, ", ")
	}
	return prefix + op
}

func intelArg(inst *Inst, pc uint64, symname SymLookup, arg Arg) string {
	switch a := arg.(type) {
	case Imm:
		if s, base := symname(uint64(a)); s != "" {
			suffix := ""
			if uint64(a) != base {
				suffix = fmt.Sprintf("%+d", uint64(a)-base)
			}
			return fmt.Sprintf("$%s%s", s, suffix)
		}
		if inst.Mode == 32 {
			return fmt.Sprintf("%#x", uint32(a))
		}
		if Imm(int32(a)) == a {
			return fmt.Sprintf("%#x", int64(a))
		}
		return fmt.Sprintf("%#x", uint64(a))
	case Mem:
		if a.Base == EIP {
			a.Base = RIP
		}
		prefix := ""
		switch inst.MemBytes {
		case 1:
			prefix = "byte "
		case 2:
			prefix = "word "
		case 4:
			prefix = "dword "
		case 8:
			prefix = "qword "
		case 16:
			prefix = "xmmword "
		case 32:
			prefix = "ymmword "
		}
		switch inst.Op {
		case INVLPG:
			prefix = "byte "
		case STOSB, MOVSB, CMPSB, LODSB, SCASB:
			prefix = "byte "
		case STOSW, MOVSW, CMPSW, LODSW, SCASW:
			prefix = "word "
		case STOSD, MOVSD, CMPSD, LODSD, SCASD:
			prefix = "dword "
		case STOSQ, MOVSQ, CMPSQ, LODSQ, SCASQ:
			prefix = "qword "
		case LAR:
			prefix = "word "
		case BOUND:
			if inst.Mode == 32 {
				prefix = "qword "
			} else {
				prefix = "dword "
			}
		case PREFETCHW, PREFETCHNTA, PREFETCHT0, PREFETCHT1, PREFETCHT2, CLFLUSH:
			prefix = "zmmword "
		}
		switch inst.Op {
		case MOVSB, MOVSW, MOVSD, MOVSQ, CMPSB, CMPSW, CMPSD, CMPSQ, STOSB, STOSW, STOSD, STOSQ, SCASB, SCASW, SCASD, SCASQ, LODSB, LODSW, LODSD, LODSQ:
			switch a.Base {
			case DI, EDI, RDI:
				if a.Segment == ES {
					a.Segment = 0
				}
			case SI, ESI, RSI:
				if a.Segment == DS {
					a.Segment = 0
				}
			}
		case LEA:
			a.Segment = 0
		default:
			switch a.Base {
			case SP, ESP, RSP, BP, EBP, RBP:
				if a.Segment == SS {
					a.Segment = 0
				}
			default:
				if a.Segment == DS {
					a.Segment = 0
				}
			}
		}

		if inst.Mode == 64 && a.Segment != FS && a.Segment != GS {
			a.Segment = 0
		}

		prefix += "ptr "
		if s, disp := memArgToSymbol(a, pc, inst.Len, symname); s != "" {
			suffix := ""
			if disp != 0 {
				suffix = fmt.Sprintf("%+d", disp)
			}
			return prefix + fmt.Sprintf("[%s%s]", s, suffix)
		}
		if a.Segment != 0 {
			prefix += strings.ToLower(a.Segment.String()) + ":"
		}
		prefix += "["
		if a.Base != 0 {
			prefix += intelArg(inst, pc, symname, a.Base)
		}
		if a.Scale != 0 && a.Index != 0 {
			if a.Base != 0 {
				prefix += "+"
			}
			prefix += fmt.Sprintf("%s*%d", intelArg(inst, pc, symname, a.Index), a.Scale)
		}
		if a.Disp != 0 {
			if prefix[len(prefix)-1] == '[' && (a.Disp >= 0 || int64(int32(a.Disp)) != a.Disp) {
				prefix += fmt.Sprintf("%#x", uint64(a.Disp))
			} else {
				prefix += fmt.Sprintf("%+#x", a.Disp)
			}
		}
		prefix += "]"
		return prefix
	case Rel:
		if pc == 0 {
			return fmt.Sprintf(".%+#x", int64(a))
		} else {
			addr := pc + uint64(inst.Len) + uint64(a)
			if s, base := symname(addr); s != "" && addr == base {
				return fmt.Sprintf("%s", s)
			} else {
				addr := pc + uint64(inst.Len) + uint64(a)
				return fmt.Sprintf("%#x", addr)
			}
		}
	case Reg:
		if int(a) < len(intelReg) && intelReg[a] != "" {
			switch inst.Op {
			case VMOVDQA, VMOVDQU, VMOVNTDQA, VMOVNTDQ:
				return strings.Replace(intelReg[a], "xmm", "ymm", -1)
			default:
				return intelReg[a]
			}
		}
	}
	return strings.ToLower(arg.String())
}

var intelOp = map[Op]string{
	JAE:       "jnb",
	JA:        "jnbe",
	JGE:       "jnl",
	JNE:       "jnz",
	JG:        "jnle",
	JE:        "jz",
	SETAE:     "setnb",
	SETA:      "setnbe",
	SETGE:     "setnl",
	SETNE:     "setnz",
	SETG:      "setnle",
	SETE:      "setz",
	CMOVAE:    "cmovnb",
	CMOVA:     "cmovnbe",
	CMOVGE:    "cmovnl",
	CMOVNE:    "cmovnz",
	CMOVG:     "cmovnle",
	CMOVE:     "cmovz",
	LCALL:     "call far",
	LJMP:      "jmp far",
	LRET:      "ret far",
	ICEBP:     "int1",
	MOVSD_XMM: "movsd",
	XLATB:     "xlat",
}

var intelReg = [...]string{
	F0:  "st0",
	F1:  "st1",
	F2:  "st2",
	F3:  "st3",
	F4:  "st4",
	F5:  "st5",
	F6:  "st6",
	F7:  "st7",
	M0:  "mmx0",
	M1:  "mmx1",
	M2:  "mmx2",
	M3:  "mmx3",
	M4:  "mmx4",
	M5:  "mmx5",
	M6:  "mmx6",
	M7:  "mmx7",
	X0:  "xmm0",
	X1:  "xmm1",
	X2:  "xmm2",
	X3:  "xmm3",
	X4:  "xmm4",
	X5:  "xmm5",
	X6:  "xmm6",
	X7:  "xmm7",
	X8:  "xmm8",
	X9:  "xmm9",
	X10: "xmm10",
	X11: "xmm11",
	X12: "xmm12",
	X13: "xmm13",
	X14: "xmm14",
	X15: "xmm15",

	// TODO: Maybe the constants are named wrong.
	SPB: "spl",
	BPB: "bpl",
	SIB: "sil",
	DIB: "dil",

	R8L:  "r8d",
	R9L:  "r9d",
	R10L: "r10d",
	R11L: "r11d",
	R12L: "r12d",
	R13L: "r13d",
	R14L: "r14d",
	R15L: "r15d",
}
