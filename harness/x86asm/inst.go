// Copyright 2014 The Go Authors.  All rights reserved.
// Use of this source code is governed by a BSD-style
// license that can be found in the LICENSE file.

// Package x86asm implements decoding of x86 machine code.
package x86asm

import (
	"bytes"
	"fmt"
)

// An Inst is a single instruction.
type Inst struct {
	Prefix   Prefixes // Prefixes applied to the instruction.
	Op       Op       // Opcode mnemonic
	Opcode   uint32   // Encoded opcode bits, left aligned (first byte is Opcode>>24, etc)
	Args     Args     // Instruction arguments, in Intel order
	Mode     int      // processor mode in bits: 16, 32, or 64
	AddrSize int      // address size in bits: 16, 32, or 64
	DataSize int      // operand size in bits: 16, 32, or 64
	MemBytes int      // size of memory argument in bytes: 1, 2, 4, 8, 16, and so on.
	Len      int      // length of encoded instruction in bytes
	PCRel    int      // length of PC-relative address in instruction encoding
	PCRelOff int      // index of start of PC-relative address in instruction encoding
}

// Prefixes is an array of prefixes associated with a single instruction.
// The prefixes are listed in the same order as found in the instruction:
// each prefix byte corresponds to one slot in the array. The first zero
// in the array marks the end of the prefixes.
type Prefixes [14]Prefix

// A Prefix represents an Intel instruction prefix.
// The low 8 bits are the actual prefix byte encoding,
// and the top 8 bits contain distinguishing bits and metadata.
type Prefix uint16

const (
	// Metadata about the role of a prefix in an instruction.
	PrefixImplicit Prefix = 0x8000 // prefix is implied by instruction text
	PrefixIgnored  Prefix = 0x4000 // prefix is ignored: either irrelevant or overridden by a later prefix
	PrefixInvalid  Prefix = 0x2000 // prefix makes entire instruction invalid (bad LOCK)

	// Memory segment overrides.
	PrefixES Prefix = 0x26 // ES segment override
	PrefixCS Prefix = 0x2E // CS segment override
	PrefixSS Prefix = 0x36 // SS segment override
	PrefixDS Prefix = 0x3E // DS segment override
	PrefixFS Prefix = 0x64 // FS segment override
	PrefixGS Prefix = 0x65 // GS segment override

	// Branch prediction.
	PrefixPN Prefix = 0x12E // predict not taken (conditional branch only)
	PrefixPT Prefix = 0x13E // predict taken (conditional branch only)

	// Size attributes.
	PrefixDataSize Prefix = 0x66 // operand size override
	PrefixData16   Prefix = 0x166
	PrefixData32   Prefix = 0x266
	PrefixAddrSize Prefix = 0x67 // address size override
	PrefixAddr16   Prefix = 0x167
	PrefixAddr32   Prefix = 0x267

	// One of a kind.
	PrefixLOCK     Prefix = 0xF0 // lock
	PrefixREPN     Prefix = 0xF2 // repeat not zero
	PrefixXACQUIRE Prefix = 0x1F2
	PrefixBND      Prefix = 0x2F2
	PrefixREP      Prefix = 0xF3 // repeat
	PrefixXRELEASE Prefix = 0x1F3

	// The REX prefixes must be in the range [PrefixREX, PrefixREX+0x10).
	// the other bits are set or not according to the intended use.
	PrefixREX       Prefix = 0x40 // REX 64-bit extension prefix
	PrefixREXW      Prefix = 0x08 // extension bit W (64-bit instruction width)
	PrefixREXR      Prefix = 0x04 // extension bit R (r field in modrm)
	PrefixREXX      Prefix = 0x02 // extension bit X (index field in sib)
	PrefixREXB      Prefix = 0x01 // extension bit B (r/m field in modrm or base field in sib)
	PrefixVEX2Bytes Prefix = 0xC5 // Short form of vex prefix
	PrefixVEX3Bytes Prefix = 0xC4 // Long form of vex prefix
)

// IsREX reports whether p is a REX prefix byte.
func (p Prefix) IsREX() bool {
	return p&0xF0 == PrefixREX
}

func (p Prefix) IsVEX() bool {
	return p&0xFF == PrefixVEX2Bytes || p&0xFF == PrefixVEX3Bytes
}

func (p Prefix) String() string {
	p &^= PrefixImplicit | PrefixIgnored | PrefixInvalid
	if s := prefixNames[p]; s != "" {
		return s
	}

	if p.IsREX() {
		s := "REX."
		if p&PrefixREXW != 0 {
			s += "W"
		}
		if p&PrefixREXR != 0 {
			s += "R"
		}
		if p&PrefixREXX != 0 {
			s += "X"
		}
		if p&PrefixREXB != 0 {
			s += "B"
		}
		return s
	}

	return fmt.Sprintf("Prefix(%#x)", int(p))
}

// An Op is an x86 opcode.
type Op uint32

func (op Op) String() string {
	i := int(op)
	if i < 0 || i >= len(opNames) || opNames[i] == "" {
		return fmt.Sprintf("Op(%d)", i)
	}
	return opNames[i]
}

// An Args holds the instruction arguments.
// If an instruction has fewer than 4 arguments,
// the final elements in the array are nil.
type Args [4]Arg

// An Arg is a single instruction argument,
// one of these types: Reg, Mem, Imm, Rel.
type Arg interface {
	String() string
	isArg()
}

// Note that the implements of Arg that follow are all sized
// so that on a 64-bit machine the data can be inlined in
// the interface value instead of requiring an allocation.

// A Reg is a single register.
// The zero Reg value has no name but indicates “no register.”
type Reg uint8

const (
	_ Reg = iota

	// 8-bit
	AL
	CL
	DL
	BL
	AH
	CH
	DH
	BH
	SPB
	BPB
	SIB
	DIB
	R8B
	R9B
	R10B
	R11B
	R12B
	R13B
	R14B
	R15B

	// 16-bit
	AX
	CX
	DX
	BX
	SP
	BP
	SI
	DI
	R8W
	R9W
	R10W
	R11W
	R12W
	R13W
	R14W
	R15W

	// 32-bit
	EAX
	ECX
	EDX
	EBX
	ESP
	EBP
	ESI
	EDI
	R8L
	R9L
	R10L
	R11L
	R12L
	R13L
	R14L
	R15L

	// 64-bit
	RAX
	RCX
	RDX
	RBX
	RSP
	RBP
	RSI
	RDI
	R8
	R9
	R10
	R11
	R12
	R13
	R14
	R15

	// Instruction pointer.
	IP  // 16-bit
	EIP // 32-bit
	RIP // 64-bit

	// 387 floating point registers.
	F0
	F1
	F2
	F3
	F4
	F5
	F6
	F7

	// MMX registers.
	M0
	M1
	M2
	M3
	M4
	M5
	M6
	M7

	// XMM registers.
	X0
	X1
	X2
	X3
	X4
	X5
	X6
	X7
	X8
	X9
	X10
	X11
	X12
	X13
	X14
	X15

	// Segment registers.
	ES
	CS
	SS
	DS
	FS
	GS

	// System registers.
	GDTR
	IDTR
	LDTR
	MSW
	TASK

	// Control registers.
	CR0
	CR1
	CR2
	CR3
	CR4
	CR5
	CR6
	CR7
	CR8
	CR9
	CR10
	CR11
	CR12
	CR13
	CR14
	CR15

	// Debug registers.
	DR0
	DR1
	DR2
	DR3
	DR4
	DR5
	DR6
	DR7
	DR8
	DR9
	DR10
	DR11
	DR12
	DR13
	DR14
	DR15

	// Task registers.
	TR0
	TR1
	TR2
	TR3
	TR4
	TR5
	TR6
	TR7
)

const regMax = TR7

func (Reg) isArg() {}

func (r Reg) String() string {
	i := int(r)
	if i < 0 || i >= len(regNames) || regNames[i] == "" {
		return fmt.Sprintf("Reg(%d)", i)
	}
	return regNames[i]
}

// A Mem is a memory reference.
// The general form is Segment:[Base+Scale*Index+Disp].
type Mem struct {
	Segment Reg
	Base    Reg
	Scale   uint8
	Index   Reg
	Disp    int64
}

func (Mem) isArg() {}

func (m Mem) String() string {
	var base, plus, scale, index, disp string

	if m.Base != 0 {
		base = m.Base.String()
	}
	if m.Scale != 0 {
		if m.Base != 0 {
			plus = "+"
		}
		if m.Scale > 1 {
			scale = fmt.Sprintf("%d*", m.Scale)
		}
		index = m.Index.String()
	}
	if m.Disp != 0 || m.Base == 0 && m.Scale == 0 {
		disp = fmt.Sprintf("%+#x", m.Disp)
	}
	return "[" + base + plus + scale + index + disp + "]"
}

// A Rel is an offset relative to the current instruction pointer.
type Rel int32

func (Rel) isArg() {}

func (r Rel) String() string {
	return fmt.Sprintf(".%+d", r)
}

// An Imm is an integer constant.
type Imm int64

func (Imm) isArg() {}

func (i Imm) String() string {
	return fmt.Sprintf("%#x", int64(i))
}

func (i Inst) String() string {
	var buf bytes.Buffer
	for _, p := range i.Prefix {
		if p == 0 {
			break
		}
		if p&PrefixImplicit != 0 {
			continue
		}
		fmt.Fprintf(&buf, "%v ", p)
	}
	fmt.Fprintf(&buf, "%v", i.Op)
	sep := " "
	for _, v := range i.Args {
		if v == nil {
			break
		}
		fmt.Fprintf(&buf, "%s%v", sep, v)
		sep = ", "
	}
	return buf.String()
}

func isReg(a Arg) bool {
	_, ok := a.(Reg)
	return ok
}

func isSegReg(a Arg) bool {
	r, ok := a.(Reg)
	return ok && ES <= r && r <= GS
}

func isMem(a Arg) bool {
	_, ok := a.(Mem)
	return ok
}

func isImm(a Arg) bool {
	_, ok := a.(Imm)
	return ok
}

func regBytes(a Arg) int {
	r, ok := a.(Reg)
	if !ok {
		return 0
	}
	if AL <= r && r <= R15B {
		return 1
	}
	if AX <= r && r <= R15W {
		return 2
	}
	if EAX <= r && r <= R15L {
		return 4
	}
	if RAX <= r && r <= R15 {
		return 8
	}
	return 0
}

func isSegment(p Prefix) bool {
	switch p {
	case PrefixCS, PrefixDS, PrefixES, PrefixFS, PrefixGS, PrefixSS:
		return true
	}
	return false
}

// The Op definitions and string list are in tables.go.

var prefixNames = map[Prefix]string{
	PrefixCS:       "CS",
	PrefixDS:       "DS",
	PrefixES:       "ES",
	PrefixFS:       "FS",
	PrefixGS:       "GS",
	PrefixSS:       "SS",
	PrefixLOCK:     "LOCK",
	PrefixREP:      "REP",
	PrefixREPN:     "REPN",
	PrefixAddrSize: "ADDRSIZE",
	PrefixDataSize: "DATASIZE",
	PrefixAddr16:   "ADDR16",
	PrefixData16:   "DATA16",
	PrefixAddr32:   "ADDR32",
	PrefixData32:   "DATA32",
	PrefixBND:      "BND",
	PrefixXACQUIRE: "XACQUIRE",
	PrefixXRELEASE: "XRELEASE",
	PrefixREX:      "REX",
	PrefixPT:       "PT",
	PrefixPN:       "PN",
}

var regNames = [...]string{
	AL:   "AL",
	CL:   "CL",
	BL:   "BL",
	DL:   "DL",
	AH:   "AH",
	CH:   "CH",
	BH:   "BH",
	DH:   "DH",
	SPB:  "SPB",
	BPB:  "BPB",
	SIB:  "SIB",
	DIB:  "DIB",
	R8B:  "R8B",
	R9B:  "R9B",
	R10B: "R10B",
	R11B: "R11B",
	R12B: "R12B",
	R13B: "R13B",
	R14B: "R14B",
	R15B: "R15B",
	AX:   "AX",
	CX:   "CX",
	BX:   "BX",
	DX:   "DX",
	SP:   "SP",
	BP:   "BP",
	SI:   "SI",
	DI:   "DI",
	R8W:  "R8W",
	R9W:  "R9W",
	R10W: "R10W",
	R11W: "R11W",
	R12W: "R12W",
	R13W: "R13W",
	R14W: "R14W",
	R15W: "R15W",
	EAX:  "EAX",
	ECX:  "ECX",
	EDX:  "EDX",
	EBX:  "EBX",
	ESP:  "ESP",
	EBP:  "EBP",
	ESI:  "ESI",
	EDI:  "EDI",
	R8L:  "R8L",
	R9L:  "R9L",
	R10L: "R10L",
	R11L: "R11L",
	R12L: "R12L",
	R13L: "R13L",
	R14L: "R14L",
	R15L: "R15L",
	RAX:  "RAX",
	RCX:  "RCX",
	RDX:  "RDX",
	RBX:  "RBX",
	RSP:  "RSP",
	RBP:  "RBP",
	RSI:  "RSI",
	RDI:  "RDI",
	R8:   "R8",
	R9:   "R9",
	R10:  "R10",
	R11:  "R11",
	R12:  "R12",
	R13:  "R13",
	R14:  "R14",
	R15:  "R15",
	IP:   "IP",
	EIP:  "EIP",
	RIP:  "RIP",
	F0:   "F0",
	F1:   "F1",
	F2:   "F2",
	F3:   "F3",
	F4:   "F4",
	F5:   "F5",
	F6:   "F6",
	F7:   "F7",
	M0:   "M0",
	M1:   "M1",
	M2:   "M2",
	M3:   "M3",
	M4:   "M4",
	M5:   "M5",
	M6:   "M6",
	M7:   "M7",
	X0:   "X0",
	X1:   "X1",
	X2:   "X2",
	X3:   "X3",
	X4:   "X4",
	X5:   "X5",
	X6:   "X6",
	X7:   "X7",
	X8:   "X8",
	X9:   "X9",
	X10:  "X10",
	X11:  "X11",
	X12:  "X12",
	X13:  "X13",
	X14:  "X14",
	X15:  "X15",
	CS:   "CS",
	SS:   "SS",
	DS:   "DS",
	ES:   "ES",
	FS:   "FS",
	GS:   "GS",
	GDTR: "GDTR",
	IDTR: "IDTR",
	LDTR: "LDTR",
	MSW:  "MSW",
	TASK: "TASK",
	CR0:  "CR0",
	CR1:  "CR1",
	CR2:  "CR2",
	CR3:  "CR3",
	CR4:  "CR4",
	CR5:  "CR5",
	CR6:  "CR6",
	CR7:  "CR7",
	CR8:  "CR8",
	CR9:  "CR9",
	CR10: "CR10",
	CR11: "CR11",
	CR12: "CR12",
	CR13: "CR13",
	CR14: "CR14",
	CR15: "CR15",
	DR0:  "DR0",
	DR1:  "DR1",
	DR2:  "DR2",
	DR3:  "DR3",
	DR4:  "DR4",
	DR5:  "DR5",
	DR6:  "DR6",
	DR7:  "DR7",
	DR8:  "DR8",
	DR9:  "DR9",
	DR10: "DR10",
	DR11: "DR11",
	DR12: "DR12",
	DR13: "DR13",
	DR14: "DR14",
	DR15: "DR15",
	TR0:  "TR0",
	TR1:  "TR1",
	TR2:  "TR2",
	TR3:  "TR3",
	TR4:  "TR4",
	TR5:  "TR5",
	TR6:  "TR6",
	TR7:  "TR7",
}
