// Package asm runs gosk's real pipeline in-process (gen.Parse + frontend.Exec)
// and classifies what a user of the gosk binary would have seen.
package asm

import (
	"bytes"
	"context"
	"fmt"
	"log"
	"os"
	"os/exec"
	"path/filepath"
	"reflect"
	"regexp"
	"runtime/debug"
	"sort"
	"strings"
	"sync"
	"time"

	"io"

	"github.com/HobbyOSs/gosk/internal/ast"
	"github.com/HobbyOSs/gosk/internal/codegen"
	"github.com/HobbyOSs/gosk/internal/filefmt"
	"github.com/HobbyOSs/gosk/internal/frontend"
	"github.com/HobbyOSs/gosk/internal/gen"
	ocode_client "github.com/HobbyOSs/gosk/internal/ocode_client"
	"github.com/HobbyOSs/gosk/internal/pass1"
	"github.com/HobbyOSs/gosk/internal/pass2"
	"github.com/HobbyOSs/gosk/pkg/asmdb"
	"github.com/HobbyOSs/gosk/pkg/cpu"
)

// Result is the observable outcome of one assembly.
type Result struct {
	ParseErr string   // non-empty: the source did not parse (binary exits non-zero)
	Panic    string   // non-empty: a panic escaped (binary dies with exit 2)
	Out      []byte   // bytes left in the output file
	Diags    []string // user-visible log lines that read as a complaint (see IsComplaint)
	Visible  int      // number of user-visible log lines
	LOC      int32    // final pass-1 location counter
	Origin   uint32   // pass-1 origin ($ position)
	SymTable map[string]int32
}

// Failed reports whether the run ended like a failing process.
func (r *Result) Failed() bool { return r.ParseErr != "" || r.Panic != "" }

var (
	tmpOnce sync.Once
	tmpDir  string
	tmpSeq  int
	mu      sync.Mutex
)

// TmpDir returns the per-process scratch directory (tmpfs when available).
func TmpDir() string {
	tmpOnce.Do(func() {
		base := os.Getenv("VERIF_TMP")
		if base == "" {
			if st, err := os.Stat("/dev/shm"); err == nil && st.IsDir() {
				base = "/dev/shm"
			} else {
				base = os.TempDir()
			}
		}
		d, err := os.MkdirTemp(base, "goskverif-")
		if err != nil {
			panic(err)
		}
		tmpDir = d
	})
	return tmpDir
}

// Cleanup removes the scratch directory.
func Cleanup() {
	if tmpDir != "" {
		os.RemoveAll(tmpDir)
	}
}

// hidden headers: colog drops these at the binary's default level (info).
var hiddenHeaders = []string{"t: ", "trc: ", "trace: ", "d: ", "dbg: ", "debug: "}
var severeHeaders = []string{"w: ", "wrn: ", "warn: ", "warning: ", "e: ", "err: ", "error: ", "a: ", "alr: ", "alert: ", "panic: "}

var complaintRe = regexp.MustCompile(`(?i)error|fail|invalid|unsupported|unresolved|not found|requires (exactly|at least|a |an |one|[0-9])|must (be|have|not)|cannot|can't|out of range|no handler|warn|unknown|not implemented|unexpected|missing|not supported|could not|mismatch`)

// IsComplaint: a visible line at level >= warning, or one whose wording a user
// would read as a complaint. Deliberately generous: it can only shrink the
// domain of "accepted without diagnostic".
func IsComplaint(line string) bool {
	for _, h := range severeHeaders {
		if strings.HasPrefix(line, h) {
			return true
		}
	}
	return complaintRe.MatchString(line)
}

// IsWarning: the line carries a warning-level header (and so is not an error-level diagnostic).
func IsWarning(line string) bool {
	for _, h := range []string{"w: ", "wrn: ", "warn: ", "warning: "} {
		if strings.HasPrefix(strings.ToLower(line), h) {
			return true
		}
	}
	return false
}

func isHidden(line string) bool {
	for _, h := range hiddenHeaders {
		if strings.HasPrefix(line, h) {
			return true
		}
	}
	return false
}

// Assemble runs the real pipeline on src. Not safe for concurrent use (log
// output is process-global); callers are single-goroutine property checks.
func Assemble(src string) *Result {
	path := nextPath()
	return AssembleTo(src, path, true)
}

func nextPath() string {
	mu.Lock()
	defer mu.Unlock()
	tmpSeq++
	return filepath.Join(TmpDir(), fmt.Sprintf("o%d.bin", tmpSeq%8))
}

// AssembleTo assembles into an explicit destination (kept unless remove).
func AssembleTo(src, path string, remove bool) *Result {
	res := &Result{}
	pt, err := gen.Parse("", []byte(src), gen.Entrypoint("Program"))
	if err != nil {
		res.ParseErr = err.Error()
		return res
	}
	return ExecTree(pt, path, remove, res)
}

// Parse exposes the parser (for tree-reuse checks).
func Parse(src string) (any, error) {
	return gen.Parse("", []byte(src), gen.Entrypoint("Program"))
}

// ExecTree runs frontend.Exec on an already parsed tree.
func ExecTree(pt any, path string, remove bool, res *Result) *Result {
	if res == nil {
		res = &Result{}
	}
	var buf bytes.Buffer
	oldFlags := log.Flags()
	log.SetFlags(0)
	log.SetOutput(&buf)
	defer func() {
		log.SetOutput(os.Stderr)
		log.SetFlags(oldFlags)
	}()
	func() {
		defer func() {
			if p := recover(); p != nil {
				res.Panic = fmt.Sprintf("%v\n%s", p, firstFrames(debug.Stack()))
			}
		}()
		p1, _ := frontend.Exec(pt, path)
		if p1 != nil {
			res.LOC = p1.LOC
			res.Origin = p1.DollarPosition
			res.SymTable = p1.SymTable
		}
	}()
	if res.Panic == "" {
		b, err := os.ReadFile(path)
		if err == nil {
			res.Out = b
		}
	}
	if remove {
		os.Remove(path)
	}
	for _, line := range strings.Split(buf.String(), "\n") {
		line = strings.TrimRight(line, "\r ")
		if line == "" || isHidden(line) {
			continue
		}
		res.Visible++
		if IsComplaint(line) {
			res.Diags = append(res.Diags, line)
		}
	}
	return res
}

func firstFrames(st []byte) string {
	lines := strings.Split(string(st), "\n")
	var keep []string
	for _, l := range lines {
		if strings.Contains(l, "gosk/") && !strings.Contains(l, "verifharness") {
			keep = append(keep, strings.TrimSpace(l))
			if len(keep) >= 6 {
				break
			}
		}
	}
	return strings.Join(keep, " | ")
}

// ExtraDiags returns the complaint lines of r that the baseline run did not
// print at all. (Set difference, not multiset: gosk re-runs pass 1 when it
// widens branches, which repeats every baseline line.)
func ExtraDiags(r, baseline *Result) []string {
	seen := map[string]bool{}
	if baseline != nil {
		for _, d := range baseline.Diags {
			seen[d] = true
		}
	}
	var extra []string
	for _, d := range r.Diags {
		if !seen[d] {
			if IsWarning(d) || strings.HasPrefix(d, "Warning:") {
				// the properties speak of statements assembled "without reporting an error" / of runs that print "no
				// error-level diagnostic": a warning does not take a case out of their domain
				continue
			}
			extra = append(extra, d)
		}
	}
	return extra
}

// Diagnosed: the run failed, or printed a complaint the baseline did not.
func Diagnosed(r, baseline *Result) bool {
	return r.Failed() || len(ExtraDiags(r, baseline)) > 0
}

var (
	baseMu    sync.Mutex
	baseCache = map[string]*Result{}
)

// Baseline assembles (and caches) a header-only program.
func Baseline(header string) *Result {
	baseMu.Lock()
	defer baseMu.Unlock()
	if r, ok := baseCache[header]; ok {
		return r
	}
	r := Assemble(header)
	baseCache[header] = r
	return r
}

// SortedKeys is a helper for deterministic iteration.
func SortedKeys[V any](m map[string]V) []string {
	ks := make([]string, 0, len(m))
	for k := range m {
		ks = append(ks, k)
	}
	sort.Strings(ks)
	return ks
}

var (
	reQuoted = regexp.MustCompile(`'[^']*'|"[^"]*"`)
	reNum    = regexp.MustCompile(`0x[0-9a-fA-F]+|-?[0-9]+`)
)

// DiagClass reduces the first complaint line a run printed beyond its
// baseline to a short class (names and numbers removed), for statistics.
func DiagClass(r, baseline *Result) string {
	if r.ParseErr != "" {
		return "parse error"
	}
	if r.Panic != "" {
		return "panic"
	}
	ex := ExtraDiags(r, baseline)
	if len(ex) == 0 {
		return "none"
	}
	s := reQuoted.ReplaceAllString(ex[0], "_")
	s = reNum.ReplaceAllString(s, "N")
	if len(s) > 70 {
		s = s[:70]
	}
	return s
}

// ---------------------------------------------------------------------------
// subprocess runs of the real binary

// CLIResult is what a user of the gosk command observes.
type CLIResult struct {
	Exit   int
	Stdout string
	Stderr string
	Err    error // start failure / time-out (not an exit status)
}

// GoskPath returns the binary built by the driver (VERIF_GOSK).
func GoskPath() string { return os.Getenv("VERIF_GOSK") }

// RunCLI runs the gosk binary with args in dir (time-out 60 s).
func RunCLI(dir string, args ...string) CLIResult {
	var res CLIResult
	path := GoskPath()
	if path == "" {
		res.Err = fmt.Errorf("VERIF_GOSK not set")
		return res
	}
	ctx, cancel := context.WithTimeout(context.Background(), 60*time.Second)
	defer cancel()
	cmd := exec.CommandContext(ctx, path, args...)
	cmd.Dir = dir
	var so, se bytes.Buffer
	cmd.Stdout, cmd.Stderr = &so, &se
	err := cmd.Run()
	res.Stdout, res.Stderr = so.String(), se.String()
	if ee, ok := err.(*exec.ExitError); ok {
		res.Exit = ee.ExitCode()
		if ctx.Err() != nil {
			res.Err = fmt.Errorf("time-out")
		}
	} else if err != nil {
		res.Err = err
	}
	return res
}

var (
	cliMu    sync.Mutex
	cliCache = map[string][]byte{}
	cliSeq   int
	// sources on which the binary could not be started or ran into the time-out: says nothing about gosk
	cliUndecided = map[string]bool{}
)

// FreshProcessUndecided: the fresh-process run of src did not finish (start failure, time-out on a busy machine).
func FreshProcessUndecided(src string) bool {
	cliMu.Lock()
	defer cliMu.Unlock()
	return cliUndecided[src]
}

// FreshProcessBytes assembles src in a fresh process and returns the output
// file's bytes (cached per source text). ok=false when the process failed.
func FreshProcessBytes(src string) ([]byte, bool) {
	cliMu.Lock()
	if b, ok := cliCache[src]; ok {
		cliMu.Unlock()
		return b, b != nil
	}
	cliSeq++
	n := cliSeq
	cliMu.Unlock()
	in := filepath.Join(TmpDir(), fmt.Sprintf("cli%d.nas", n))
	out := filepath.Join(TmpDir(), fmt.Sprintf("cli%d.bin", n))
	os.WriteFile(in, []byte(src), 0o644)
	defer os.Remove(in)
	defer os.Remove(out)
	r := RunCLI(TmpDir(), in, out)
	if r.Err != nil {
		cliMu.Lock()
		cliUndecided[src] = true
		cliMu.Unlock()
	}
	var b []byte
	if r.Err == nil && r.Exit == 0 {
		b, _ = os.ReadFile(out)
		if b == nil {
			b = []byte{}
		}
	}
	cliMu.Lock()
	cliCache[src] = b
	cliMu.Unlock()
	return b, b != nil
}

// ---------------------------------------------------------------------------
// exit-free replica of frontend.Exec (context set-up, pass 1, pass 2 with the
// branch-widening loop, format switch) for C13's mutation/fuzz targets, where
// arbitrary text may reach the paths on which the real Exec calls os.Exit.
// Anything found with it is re-run through the real binary before it is reported.

// NoExitResult: Err is a diagnosed failure (what Exec would turn into an exit), Panic a crash.
type NoExitResult struct {
	ParseErr string
	Err      string
	Panic    string
	Out      []byte
}

func AssembleNoExit(src string) (res NoExitResult) {
	var buf bytes.Buffer
	oldFlags := log.Flags()
	log.SetFlags(0)
	log.SetOutput(io.Discard)
	_ = buf
	defer func() {
		log.SetOutput(os.Stderr)
		log.SetFlags(oldFlags)
	}()
	defer func() {
		if p := recover(); p != nil {
			res.Panic = fmt.Sprintf("%v\n%s", p, firstFrames(debug.Stack()))
		}
	}()
	pt, err := gen.Parse("", []byte(src), gen.Entrypoint("Program"))
	if err != nil {
		res.ParseErr = err.Error()
		return res
	}
	prog, ok := pt.(ast.Prog)
	if !ok {
		res.Err = "not a program"
		return res
	}
	near := map[int]bool{}
	for iter := 0; ; iter++ {
		ctx := &codegen.CodeGenContext{BitMode: cpu.MODE_16BIT, SymTable: make(map[string]int32), GlobalSymbolList: []string{}, MachineCode: []byte{}}
		client, _ := ocode_client.NewCodegenClient(ctx)
		p1 := &pass1.Pass1{LOC: 0, BitMode: cpu.MODE_16BIT, SymTable: ctx.SymTable, GlobalSymbolList: ctx.GlobalSymbolList, ExternSymbolList: []string{},
			Client: client, AsmDB: asmdb.NewInstructionDB(), MacroMap: make(map[string]ast.Exp)}
		if len(near) > 0 {
			p1.NearBranches = near
		}
		p1.Eval(prog, ctx)
		p2 := &pass2.Pass2{BitMode: p1.BitMode, OutputFormat: p1.OutputFormat, SourceFileName: p1.SourceFileName, CurrentSection: p1.CurrentSection,
			SymTable: p1.SymTable, GlobalSymbolList: ctx.GlobalSymbolList, ExternSymbolList: p1.ExternSymbolList, Client: p1.Client, DollarPos: p1.DollarPosition}
		if err := p2.Eval(prog); err != nil {
			res.Err = err.Error()
			return res
		}
		if len(ctx.TooFarBranches) == 0 {
			if p2.OutputFormat == "WCOFF" {
				path := nextPath()
				if err := (&filefmt.CoffFormat{}).Write(ctx, path); err != nil {
					res.Err = err.Error()
				} else {
					res.Out, _ = os.ReadFile(path)
				}
				os.Remove(path)
			} else {
				res.Out = ctx.MachineCode
			}
			return res
		}
		// (read through reflection: the replica should keep building if the field becomes a set)
		switch tf := reflect.ValueOf(ctx.TooFarBranches); tf.Kind() {
		case reflect.Slice:
			for i := 0; i < tf.Len(); i++ {
				near[int(tf.Index(i).Int())] = true
			}
		case reflect.Map:
			for _, k := range tf.MapKeys() {
				near[int(k.Int())] = true
			}
		}
		if iter > 200000 {
			res.Err = "branch widening did not converge"
			return res
		}
	}
}
