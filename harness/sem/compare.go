package sem

import (
	"fmt"
	"strings"

	"github.com/HobbyOSs/gosk/verifharness/x86asm"
)

// Mismatch describes how decoded bytes differ in meaning from the intended
// statement. Kind is a short stable tag used in finding signatures.
type Mismatch struct {
	Kind   string
	Detail string
}

func (m *Mismatch) String() string {
	if m == nil {
		return ""
	}
	return m.Kind + ": " + m.Detail
}

func mm(kind, f string, a ...any) *Mismatch {
	return &Mismatch{Kind: kind, Detail: fmt.Sprintf(f, a...)}
}

// canonical operation names: every synonym maps to one representative.
var opAlias = map[string]string{
	"JZ": "JE", "JNZ": "JNE", "JC": "JB", "JNAE": "JB", "JNC": "JAE", "JNB": "JAE",
	"JNA": "JBE", "JNBE": "JA", "JNGE": "JL", "JNL": "JGE", "JNG": "JLE", "JNLE": "JG",
	"JPE": "JP", "JPO": "JNP", "SAL": "SHL", "RETN": "RET", "RETF": "LRET", "LJMP": "JMP_FAR",
	"REPZ": "REPE", "REPNZ": "REPNE", "WAIT": "FWAIT", "PUSHAW": "PUSHA", "POPAW": "POPA",
	"PUSHFW": "PUSHF", "POPFW": "POPF", "IRETW": "IRET", "INT3": "INT",
	"XLATB": "XLATB", "ICEBP": "ICEBP", "INT1": "ICEBP",
}

// CanonOp returns the canonical operation name for a mnemonic.
func CanonOp(mn string) string {
	mn = strings.ToUpper(mn)
	if a, ok := opAlias[mn]; ok {
		return a
	}
	return mn
}

// Decode1 decodes exactly one instruction occupying all of out.
func Decode1(out []byte, mode int) (x86asm.Inst, *Mismatch) {
	if len(out) == 0 {
		return x86asm.Inst{}, mm("empty", "no bytes emitted")
	}
	inst, err := x86asm.Decode(out, mode)
	if err != nil || inst.Op == 0 {
		return inst, mm("nodecode", "bytes % x do not decode in %d-bit mode: %v", out, mode, err)
	}
	if inst.Len != len(out) {
		return inst, mm("length", "bytes % x: first instruction %q takes %d of %d bytes", out, x86asm.IntelSyntax(inst, 0, nil), inst.Len, len(out))
	}
	return inst, nil
}

func decArgs(inst x86asm.Inst) []x86asm.Arg {
	var a []x86asm.Arg
	for _, x := range inst.Args {
		if x == nil {
			break
		}
		a = append(a, x)
	}
	return a
}

func mask(v int64, bits int) uint64 {
	if bits >= 64 || bits <= 0 {
		return uint64(v)
	}
	return uint64(v) & (uint64(1)<<uint(bits) - 1)
}

// OperandBits returns the operand width the statement asks for, or 0 when
// the text does not determine it (then the mode default is acceptable).
func OperandBits(st Stmt) int {
	// general registers decide; otherwise a size keyword; segment registers
	// imply 16; control registers 32.
	for _, o := range st.Ops {
		if o.Kind == KReg {
			// shift count CL and port DX are not size-giving operands
			return RegBits(o.Reg)
		}
	}
	for _, o := range st.Ops {
		if o.Kind == KMem && o.Mem.Size != "" {
			return sizeBits(o.Mem.Size)
		}
	}
	for _, o := range st.Ops {
		if o.Kind == KCreg {
			return 32
		}
		if o.Kind == KSreg {
			return 16
		}
	}
	return 0
}

func sizeBits(kw string) int {
	switch kw {
	case "BYTE":
		return 8
	case "WORD":
		return 16
	case "DWORD":
		return 32
	}
	return 0
}

// Compare checks that out, decoded under mode, denotes exactly st.
func Compare(st Stmt, mode int, out []byte) *Mismatch {
	inst, m := Decode1(out, mode)
	if m != nil {
		return m
	}
	return CompareInst(st, mode, inst)
}

// CompareInst compares an already decoded instruction.
func CompareInst(st Stmt, mode int, inst x86asm.Inst) *Mismatch {
	wantOp := CanonOp(st.Mn)
	gotOp := CanonOp(inst.Op.String())
	if wantOp == "JMP" && len(st.Ops) == 1 && st.Ops[0].Kind == KFar {
		wantOp = "JMP_FAR"
	}
	if wantOp != gotOp {
		return mm("op", "wrote %s, bytes decode as %q", st.Mn, x86asm.IntelSyntax(inst, 0, nil))
	}
	// prefixes that change meaning
	for _, p := range inst.Prefix {
		if p == 0 {
			break
		}
		switch p &^ (x86asm.PrefixImplicit | x86asm.PrefixIgnored | x86asm.PrefixInvalid) {
		case x86asm.PrefixLOCK, x86asm.PrefixREP, x86asm.PrefixREPN:
			return mm("prefix", "unexpected prefix %v in %q", p, x86asm.IntelSyntax(inst, 0, nil))
		}
	}
	want := st.Ops
	got := decArgs(inst)
	// IMUL r,imm is shorthand for IMUL r,r,imm
	if wantOp == "IMUL" && len(want) == 2 && want[1].Kind == KImm && len(got) == 3 {
		want = []Operand{want[0], want[0], want[1]}
	}
	// far pointer: decoded as (seg, off)
	if wantOp == "JMP_FAR" {
		if len(got) != 2 {
			return mm("argcount", "far jump decoded with %d args", len(got))
		}
		seg, ok1 := got[0].(x86asm.Imm)
		off, ok2 := got[1].(x86asm.Imm)
		if !ok1 || !ok2 {
			return mm("far", "far jump operands not immediate: %v", got)
		}
		f := want[0]
		if mask(int64(seg), 16) != mask(f.Seg, 16) {
			return mm("far.seg", "selector %#x, wrote %#x", int64(seg), f.Seg)
		}
		if f.Size == "DWORD" && inst.DataSize != 32 {
			return mm("far.size", "DWORD far pointer decoded with %d-bit offset", inst.DataSize)
		}
		if mask(int64(off), inst.DataSize) != mask(f.Imm, inst.DataSize) || (inst.DataSize == 16 && mask(f.Imm, 32) > 0xffff) {
			return mm("far.off", "offset %#x (%d-bit), wrote %#x", int64(off), inst.DataSize, f.Imm)
		}
		return nil
	}
	if len(want) != len(got) {
		return mm("argcount", "wrote %d operands, %q has %d", len(want), x86asm.IntelSyntax(inst, 0, nil), len(got))
	}
	bits := OperandBits(st)
	// instructions whose first register operand does not give the operand size
	switch wantOp {
	case "IN":
		bits = RegBits(want[0].Reg)
	case "OUT":
		bits = RegBits(want[1].Reg)
	case "SHL", "SHR", "SAR", "ROL", "ROR", "RCL", "RCR":
		if want[0].Kind == KMem {
			bits = sizeBits(want[0].Mem.Size)
		}
	case "INT":
		bits = 8
	case "LGDT", "LIDT":
		bits = 0
	}
	for i := range want {
		w := want[i]
		switch w.Kind {
		case KReg, KSreg, KCreg:
			r, ok := got[i].(x86asm.Reg)
			if !ok {
				return mm("reg", "operand %d: wrote %s, decoded %v", i, w.Reg, got[i])
			}
			if r.String() != w.Reg {
				return mm("reg", "operand %d: wrote %s, decoded %s", i, w.Reg, r)
			}
		case KImm:
			im, ok := got[i].(x86asm.Imm)
			if !ok {
				return mm("imm", "operand %d: wrote immediate %s, decoded %v", i, w.Text, got[i])
			}
			ib := bits
			switch wantOp {
			case "SHL", "SHR", "SAR", "ROL", "ROR", "RCL", "RCR", "INT":
				ib = 8
			case "IN", "OUT":
				ib = 8
			case "PUSH":
				ib = inst.DataSize
			case "RET", "LRET":
				ib = 16
			}
			if ib == 0 {
				ib = inst.DataSize
			}
			if mask(int64(im), ib) != mask(w.Imm, ib) {
				return mm("imm", "operand %d: wrote %s (=%#x mod 2^%d), decoded %#x", i, w.Text, mask(w.Imm, ib), ib, mask(int64(im), ib))
			}
		case KMem:
			me, ok := got[i].(x86asm.Mem)
			if !ok {
				return mm("mem", "operand %d: wrote memory operand %s, decoded %v", i, w.Mem.Render(), got[i])
			}
			if m := CompareMem(w.Mem, me, inst, mode); m != nil {
				return m
			}
		default:
			return mm("internal", "operand kind %s not comparable", w.Kind)
		}
	}
	// operand size
	if bits != 0 {
		switch wantOp {
		case "IN", "OUT", "INT", "LGDT", "LIDT":
		default:
			hasGPR := false
			for _, w := range want {
				if w.Kind == KReg {
					hasGPR = true
				}
			}
			hasMem := inst.MemBytes != 0
			if hasMem && !(len(want) == 2 && (want[0].Kind == KSreg || want[1].Kind == KSreg)) {
				if inst.MemBytes*8 != bits {
					return mm("size", "wrote a %d-bit operation, memory operand decodes as %d bits", bits, inst.MemBytes*8)
				}
			} else if !hasGPR && !hasMem && bits != 8 {
				// e.g. PUSH/POP of a segment register: stack width may be the mode default
			}
		}
	}
	if wantOp == "PUSH" || wantOp == "POP" {
		if w := want[0]; w.Kind == KReg && RegBits(w.Reg) != inst.DataSize {
			return mm("size", "wrote %s %s, decoded with %d-bit operand", st.Mn, w.Reg, inst.DataSize)
		}
		// an immediate is pushed at the stack width of the mode unless its value needs more bits than that
		if w := want[0]; w.Kind == KImm && inst.DataSize != mode {
			lo, hi := -(int64(1) << uint(mode-1)), int64(1)<<uint(mode)-1
			if w.Imm >= lo && w.Imm <= hi {
				return mm("size", "wrote %s %s in %d-bit mode (the value fits %d bits), decoded with a %d-bit stack operand", st.Mn, w.Text, mode, mode, inst.DataSize)
			}
		}
		// a segment register is pushed/popped at the stack width of the mode: an operand-size prefix changes
		// how far the stack pointer moves
		if w := want[0]; w.Kind == KSreg && inst.DataSize != mode {
			return mm("size", "wrote %s %s in %d-bit mode, decoded with a %d-bit stack operand (operand-size prefix)", st.Mn, w.Reg, mode, inst.DataSize)
		}
	}
	return nil
}

// CompareMem checks that the decoded memory argument designates the address
// that was written.
func CompareMem(w *Mem, me x86asm.Mem, inst x86asm.Inst, mode int) *Mismatch {
	if me.Segment != 0 {
		return mm("mem.seg", "segment override %v not written", me.Segment)
	}
	ab := w.AddrBits()
	if ab != 0 && inst.AddrSize != ab {
		return mm("mem.addrsize", "address written with %d-bit registers, decoded at %d bits", ab, inst.AddrSize)
	}
	wb, wi, ws := w.Base, w.Index, w.Scale
	if wi == "" {
		ws = 0
	} else if ws == 0 {
		ws = 1
	}
	gb, gi, gs := "", "", int(me.Scale)
	if me.Base != 0 {
		gb = me.Base.String()
	}
	if me.Index != 0 {
		gi = me.Index.String()
	} else {
		gs = 0
	}
	if gi != "" && gs == 0 {
		gs = 1
	}
	same := wb == gb && wi == gi && ws == gs
	if !same {
		// [a+b] == [b+a] at scale 1 when neither decides the default segment
		swapOK := ws <= 1 && gs <= 1 && wb == gi && wi == gb
		if swapOK && ab == 32 {
			for _, r := range []string{wb, wi} {
				if r == "EBP" || r == "ESP" {
					swapOK = false
				}
			}
		}
		// a lone index at scale 1 is the same address as a lone base
		loneOK := ws <= 1 && gs <= 1 && ((wb == "" && gb == wi && gi == "") || (wi == "" && gi == wb && gb == "")) && wb+wi != "" && ab == 32 &&
			wb+wi != "EBP" && wb+wi != "ESP"
		if !swapOK && !loneOK {
			kind := "mem.base"
			if wb == gb {
				kind = "mem.index"
				if wi == gi {
					kind = "mem.scale"
				}
			}
			return mm(kind, "wrote base=%q index=%q scale=%d, decoded base=%q index=%q scale=%d", wb, wi, ws, gb, gi, gs)
		}
	}
	abits := inst.AddrSize
	wd := int64(0)
	if w.HasDisp || (w.Base == "" && w.Index == "") {
		wd = w.Disp
	}
	if mask(me.Disp, abits) != mask(wd, abits) {
		return mm("mem.disp", "wrote displacement %d, decoded %d (address width %d)", wd, me.Disp, abits)
	}
	if ab == 0 && abits == 16 && mask(wd, 32) > 0xffff && wd >= 0 {
		return mm("mem.disp", "absolute address %#x truncated to 16 bits", wd)
	}
	return nil
}
