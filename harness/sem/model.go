// Package sem holds the structured statement model the generators build
// (so the harness knows what it asked for without parsing text) and the
// meaning-level comparison against an independent decoder (x86asm).
package sem

import (
	"fmt"
	"strings"
)

// Operand kinds.
const (
	KReg   = "reg"   // general register r8/r16/r32
	KSreg  = "sreg"  // segment register
	KCreg  = "creg"  // control register
	KImm   = "imm"   // constant (Text holds the rendering, Imm its value)
	KMem   = "mem"   // memory operand
	KLabel = "label" // symbol used as a value or branch target
	KStr   = "str"   // string literal (data directives)
	KFar   = "far"   // seg:off
	KRaw   = "raw"   // free text (C07/C13 shapes)
)

type Mem struct {
	Size    string `json:"size,omitempty"` // "", BYTE, WORD, DWORD
	Base    string `json:"base,omitempty"`
	Index   string `json:"index,omitempty"`
	Scale   int    `json:"scale,omitempty"` // 0 = not written
	Disp    int64  `json:"disp,omitempty"`
	HasDisp bool   `json:"hasdisp,omitempty"`
	Text    string `json:"text,omitempty"` // explicit rendering of the bracket body (optional)
}

type Operand struct {
	Kind string `json:"k"`
	Reg  string `json:"reg,omitempty"`
	Imm  int64  `json:"imm,omitempty"`
	Text string `json:"text,omitempty"` // rendering for imm/label/str/raw
	Mem  *Mem   `json:"mem,omitempty"`
	Seg  int64  `json:"seg,omitempty"` // far selector
	Size string `json:"size,omitempty"` // far pointer size keyword
}

type Stmt struct {
	Mn  string    `json:"mn"`
	Ops []Operand `json:"ops,omitempty"`
}

func R(name string) Operand    { return Operand{Kind: regKind(name), Reg: name} }
func I(v int64) Operand        { return Operand{Kind: KImm, Imm: v, Text: fmt.Sprintf("%d", v)} }
func IT(v int64, text string) Operand { return Operand{Kind: KImm, Imm: v, Text: text} }
func L(name string) Operand    { return Operand{Kind: KLabel, Text: name} }
func M(m Mem) Operand          { return Operand{Kind: KMem, Mem: &m} }
func Raw(text string) Operand  { return Operand{Kind: KRaw, Text: text} }
func Str(text string) Operand  { return Operand{Kind: KStr, Text: text} }

var (
	Regs8  = []string{"AL", "CL", "DL", "BL", "AH", "CH", "DH", "BH"}
	Regs16 = []string{"AX", "CX", "DX", "BX", "SP", "BP", "SI", "DI"}
	Regs32 = []string{"EAX", "ECX", "EDX", "EBX", "ESP", "EBP", "ESI", "EDI"}
	Sregs  = []string{"ES", "CS", "SS", "DS", "FS", "GS"}
	Cregs  = []string{"CR0", "CR2", "CR3", "CR4"}
)

func regKind(name string) string {
	switch {
	case in(Sregs, name):
		return KSreg
	case in(Cregs, name):
		return KCreg
	}
	return KReg
}

func in(l []string, s string) bool {
	for _, x := range l {
		if x == s {
			return true
		}
	}
	return false
}

// RegBits returns the width of a register name (0 if unknown).
func RegBits(name string) int {
	switch {
	case in(Regs8, name):
		return 8
	case in(Regs16, name), in(Sregs, name):
		return 16
	case in(Regs32, name), in(Cregs, name):
		return 32
	}
	return 0
}

// RegNum returns the 3-bit register number.
func RegNum(name string) int {
	for _, l := range [][]string{Regs8, Regs16, Regs32, Sregs} {
		for i, x := range l {
			if x == name {
				return i
			}
		}
	}
	switch name {
	case "CR0":
		return 0
	case "CR2":
		return 2
	case "CR3":
		return 3
	case "CR4":
		return 4
	}
	return -1
}

// AddrBits of a memory operand: width of the registers used, 0 when absolute.
func (m *Mem) AddrBits() int {
	for _, r := range []string{m.Base, m.Index} {
		if b := RegBits(r); b != 0 {
			return b
		}
	}
	return 0
}

func (m *Mem) Render() string {
	var sb strings.Builder
	if m.Size != "" {
		sb.WriteString(m.Size)
		sb.WriteString(" ")
	}
	sb.WriteString("[")
	if m.Text != "" {
		sb.WriteString(m.Text)
	} else {
		first := true
		if m.Base != "" {
			sb.WriteString(m.Base)
			first = false
		}
		if m.Index != "" {
			if !first {
				sb.WriteString("+")
			}
			sb.WriteString(m.Index)
			if m.Scale > 0 {
				fmt.Fprintf(&sb, "*%d", m.Scale)
			}
			first = false
		}
		if m.HasDisp || first {
			if first {
				if m.Disp < 0 {
					fmt.Fprintf(&sb, "%d", m.Disp)
				} else {
					fmt.Fprintf(&sb, "0x%x", m.Disp)
				}
			} else if m.Disp < 0 {
				fmt.Fprintf(&sb, "-%d", -m.Disp)
			} else {
				fmt.Fprintf(&sb, "+%d", m.Disp)
			}
		}
	}
	sb.WriteString("]")
	return sb.String()
}

func (o Operand) Render() string {
	switch o.Kind {
	case KReg, KSreg, KCreg:
		return o.Reg
	case KMem:
		return o.Mem.Render()
	case KStr:
		return `"` + o.Text + `"`
	case KFar:
		s := ""
		if o.Size != "" {
			s = o.Size + " "
		}
		return fmt.Sprintf("%s%d:%s", s, o.Seg, o.Text)
	default:
		return o.Text
	}
}

func (s Stmt) Render() string {
	if len(s.Ops) == 0 {
		return s.Mn
	}
	parts := make([]string, len(s.Ops))
	for i, o := range s.Ops {
		parts[i] = o.Render()
	}
	return s.Mn + " " + strings.Join(parts, ",")
}

// Header renders the BITS header for a mode setting: 0 = none (defaults to
// 16), 16, 32.
func Header(modeSetting int) string {
	switch modeSetting {
	case 16:
		return "[BITS 16]\n"
	case 32:
		return "[BITS 32]\n"
	}
	return ""
}

func ModeOf(modeSetting int) int {
	if modeSetting == 32 {
		return 32
	}
	return 16
}
