package main

import (
	"encoding/hex"
	"fmt"
	"os"
	"strconv"
	"strings"

	"github.com/HobbyOSs/gosk/verifharness/x86asm"
)

func main() {
	for _, a := range os.Args[1:] {
		p := strings.SplitN(a, ":", 2)
		mode, _ := strconv.Atoi(p[0])
		b, _ := hex.DecodeString(strings.ReplaceAll(p[1], " ", ""))
		i, err := x86asm.Decode(b, mode)
		fmt.Printf("%s -> %v err=%v | op=%v args=%#v len=%d data=%d addr=%d membytes=%d prefix=%v\n", a, x86asm.IntelSyntax(i, 0, nil), err, i.Op, i.Args, i.Len, i.DataSize, i.AddrSize, i.MemBytes, i.Prefix)
	}
}
