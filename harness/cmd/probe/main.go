// probe: development aid. Each argument is a program with '|' for newlines.
package main

import (
	"fmt"
	"os"
	"strings"

	"github.com/HobbyOSs/gosk/verifharness/asm"
	"github.com/HobbyOSs/gosk/verifharness/x86asm"
)

func main() {
	defer asm.Cleanup()
	for _, a := range os.Args[1:] {
		src := strings.ReplaceAll(a, "|", "\n") + "\n"
		r := asm.Assemble(src)
		mode := 16
		if strings.Contains(src, "BITS 32") {
			mode = 32
		}
		fmt.Printf("%-40q -> % x", a, r.Out)
		if r.ParseErr != "" {
			fmt.Printf(" PARSEERR %.80q", r.ParseErr)
		}
		if r.Panic != "" {
			fmt.Printf(" PANIC %s", r.Panic)
		}
		fmt.Printf(" LOC=%d org=%#x", r.LOC, r.Origin)
		fmt.Println()
		for _, d := range r.Diags {
			fmt.Printf("      diag: %s\n", d)
		}
		if os.Getenv("DIS") != "" {
			b := r.Out
			for len(b) > 0 {
				i, err := x86asm.Decode(b, mode)
				if err != nil {
					fmt.Printf("      dis: ERR %v\n", err)
					break
				}
				fmt.Printf("      dis: %s (len %d, data %d addr %d)\n", x86asm.IntelSyntax(i, 0, nil), i.Len, i.DataSize, i.AddrSize)
				b = b[i.Len:]
			}
		}
	}
}
