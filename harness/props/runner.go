package props

import (
	"encoding/json"
	"fmt"
	"hash/fnv"
	"os"
	"path/filepath"
	"regexp"
	"sort"
	"strconv"
	"strings"
	"testing"

	"github.com/HobbyOSs/gosk/verifharness/asm"
	"pgregory.net/rapid"
)

// Verdict is the outcome of judging one generated case.
type Verdict struct {
	Fail       string // non-empty: the property is violated on this case
	Sig        string // signature of the violation (matched against known findings)
	Skip       string // non-empty: case is outside the property's domain (reason)
	NonTrivial bool   // satisfies the property's non-triviality rule
	Key        string // identity for distinctness (default: JSON of the case)
	Class      string // histogram class
	Sample     any    // how to show this case in the evidence (default: the case)
}

// Prop is one property stated as an executable check over generated cases.
type Prop[C any] struct {
	ID     string
	Rule   string   // generation + non-triviality rule, copied into the evidence
	Assume []string // what the check trusts, copied into the evidence
	Gen    func(t *rapid.T) C
	Check  func(c C) Verdict
	// Enum enumerates a finite grid (optional). It must call yield for every
	// cell; the runner applies sharding. exhaustive says whether the grid is
	// the complete boundary cross product of the property's quantifier.
	Enum func(tier string, yield func(C)) (exhaustive bool)
}

type finding struct {
	ID         string   `json:"id"`
	Properties []string `json:"properties"`
	Status     string   `json:"status"` // open | fixed
	What       string   `json:"what"`
	Match      []string `json:"match"`
	res        []*regexp.Regexp
}

type findingsFile struct {
	Findings []finding `json:"findings"`
}

type stats struct {
	Property    string            `json:"property"`
	Rule        string            `json:"rule"`
	Assume      []string          `json:"assume"`
	Evaluations int               `json:"evaluations"`
	NonTrivial  []uint64          `json:"nontrivial"`
	Classes     map[string]int    `json:"classes"`
	Skips       map[string]int    `json:"skips"`
	Known       map[string]int    `json:"known"`
	KnownSample map[string]string `json:"known_sample"`
	Samples     []any             `json:"samples"`
	Replayed    int               `json:"replayed"`
	EnumCells   int               `json:"enum_cells"`
	Exhaustive  bool              `json:"exhaustive"`
	Violations  int               `json:"violations"`
	FailFile    string            `json:"fail_file,omitempty"`
	FailText    string            `json:"fail_text,omitempty"`
	Extra       map[string]any    `json:"extra,omitempty"`

	nt       map[uint64]struct{}
	resv     []sampleEnt
	findings []finding
}

type sampleEnt struct {
	h uint64
	v any
}

var st = &stats{
	Classes: map[string]int{}, Skips: map[string]int{}, Known: map[string]int{}, KnownSample: map[string]string{},
	nt: map[uint64]struct{}{}, Extra: map[string]any{},
}

func hash64(s string) uint64 {
	h := fnv.New64a()
	h.Write([]byte(s))
	return h.Sum64()
}

func loadFindings(prop string) {
	st.findings = nil
	path := os.Getenv("VERIF_FINDINGS")
	if path == "" {
		path = "/verif/known_findings.json"
	}
	b, err := os.ReadFile(path)
	if err != nil {
		return
	}
	var ff findingsFile
	if err := json.Unmarshal(b, &ff); err != nil {
		panic(fmt.Sprintf("known_findings.json: %v", err))
	}
	for _, f := range ff.Findings {
		if f.Status != "open" {
			continue
		}
		ok := false
		for _, p := range f.Properties {
			if p == prop {
				ok = true
			}
		}
		if !ok {
			continue
		}
		for _, m := range f.Match {
			f.res = append(f.res, regexp.MustCompile(m))
		}
		st.findings = append(st.findings, f)
	}
}

func matchKnown(sig string) string {
	if sig == "" {
		return ""
	}
	for _, f := range st.findings {
		for _, re := range f.res {
			if re.MatchString(sig) {
				return f.ID
			}
		}
	}
	return ""
}

func envInt(name string, def int) int {
	if v := os.Getenv(name); v != "" {
		if n, err := strconv.Atoi(v); err == nil {
			return n
		}
	}
	return def
}

func tier() string {
	if os.Getenv("VERIF_TIER") == "thorough" {
		return "thorough"
	}
	return "quick"
}

// judge runs Check on one case, records statistics, and returns a non-empty
// string when the case is an unlisted violation.
func judge[C any](p *Prop[C], c C, record bool) (string, Verdict) {
	v := p.Check(c)
	key := v.Key
	if key == "" {
		b, _ := json.Marshal(c)
		key = string(b)
	}
	h := hash64(key)
	if record {
		st.Evaluations++
		if v.Class != "" {
			st.Classes[v.Class]++
		}
	}
	if v.Fail != "" {
		if id := matchKnown(v.Sig); id != "" {
			if record {
				st.Known[id]++
				if _, ok := st.KnownSample[id]; !ok {
					st.KnownSample[id] = key
				}
			}
			return "", v
		}
		return v.Fail, v
	}
	if !record {
		return "", v
	}
	if v.Skip != "" {
		st.Skips[v.Skip]++
		return "", v
	}
	if v.NonTrivial {
		if _, dup := st.nt[h]; !dup {
			st.nt[h] = struct{}{}
			sv := v.Sample
			if sv == nil {
				sv = c
			}
			// first 3 + the 5 smallest hashes: deterministic, order-free
			if len(st.Samples) < 3 {
				st.Samples = append(st.Samples, sv)
			} else {
				st.resv = append(st.resv, sampleEnt{h, sv})
				if len(st.resv) > 64 {
					sort.Slice(st.resv, func(i, j int) bool { return st.resv[i].h < st.resv[j].h })
					st.resv = st.resv[:5]
				}
			}
		}
	}
	return "", v
}

func writeFail[C any](p *Prop[C], c C, text, sig string) string {
	dir := os.Getenv("VERIF_FAILDIR")
	if dir == "" {
		dir = asm.TmpDir()
	}
	os.MkdirAll(dir, 0o755)
	path := filepath.Join(dir, p.ID+"-fail.json")
	b, _ := json.MarshalIndent(map[string]any{"property": p.ID, "case": c, "violation": text, "sig": sig}, "", " ")
	os.WriteFile(path, b, 0o644)
	st.FailFile = path
	st.FailText = text
	return path
}

// Run executes the property in the mode selected by VERIF_MODE:
// rapid (default), enum, replay (VERIF_REPLAY = file or directory).
func Run[C any](t *testing.T, p *Prop[C]) {
	st.Property = p.ID
	st.Rule = p.Rule
	st.Assume = p.Assume
	loadFindings(p.ID)
	switch os.Getenv("VERIF_MODE") {
	case "replay":
		runReplay(t, p)
	case "enum":
		runEnum(t, p)
	default:
		failed := false
		var survey *os.File
		if sp := os.Getenv("VERIF_SURVEY"); sp != "" {
			survey, _ = os.Create(sp)
			defer survey.Close()
		}
		rapid.Check(t, func(rt *rapid.T) {
			c := p.Gen(rt)
			msg, v := judge(p, c, !failed)
			if msg != "" && survey != nil {
				fmt.Fprintf(survey, "%s\t%s\n", v.Sig, strings.ReplaceAll(msg, "\n", " // "))
				return
			}
			if msg != "" {
				failed = true
				st.Violations = 1
				writeFail(p, c, msg, v.Sig)
				rt.Fatalf("VIOLATION %s: %s [sig %s]", p.ID, msg, v.Sig)
			}
		})
	}
}

func runEnum[C any](t *testing.T, p *Prop[C]) {
	if p.Enum == nil {
		return
	}
	shard, n := 0, 1
	if s := os.Getenv("VERIF_SHARD"); s != "" {
		fmt.Sscanf(s, "%d/%d", &shard, &n)
	}
	idx := 0
	stop := false
	// development aid: VERIF_SURVEY=<file> lists every violation instead of stopping
	var survey *os.File
	if sp := os.Getenv("VERIF_SURVEY"); sp != "" {
		survey, _ = os.Create(sp)
		defer survey.Close()
	}
	ex := p.Enum(tier(), func(c C) {
		i := idx
		idx++
		if stop || i%n != shard {
			return
		}
		msg, v := judge(p, c, true)
		if msg != "" {
			st.Violations++
			if survey != nil {
				fmt.Fprintf(survey, "%s\t%s\n", v.Sig, msg)
				return
			}
			writeFail(p, c, msg, v.Sig)
			t.Errorf("VIOLATION %s: %s [sig %s]", p.ID, msg, v.Sig)
			stop = true
		}
	})
	st.EnumCells = idx
	st.Exhaustive = ex && !stop
}

func runReplay[C any](t *testing.T, p *Prop[C]) {
	target := os.Getenv("VERIF_REPLAY")
	var files []string
	if fi, err := os.Stat(target); err == nil && fi.IsDir() {
		m, _ := filepath.Glob(filepath.Join(target, "*.json"))
		sort.Strings(m)
		files = m
	} else if err == nil {
		files = []string{target}
	}
	for _, f := range files {
		b, err := os.ReadFile(f)
		if err != nil {
			t.Fatalf("replay %s: %v", f, err)
		}
		var wrap struct {
			Case json.RawMessage `json:"case"`
		}
		if err := json.Unmarshal(b, &wrap); err != nil || wrap.Case == nil {
			t.Fatalf("replay %s: not a case file", f)
		}
		var c C
		if err := json.Unmarshal(wrap.Case, &c); err != nil {
			t.Fatalf("replay %s: %v", f, err)
		}
		st.Replayed++
		msg, v := judge(p, c, true)
		if msg != "" {
			st.Violations++
			st.FailFile = f
			st.FailText = msg
			t.Errorf("VIOLATION %s: %s [sig %s] replay=%s", p.ID, msg, v.Sig, f)
		} else if v.Fail != "" {
			t.Logf("known finding reproduces: %s (%s)", filepath.Base(f), v.Sig)
		} else if strings.HasPrefix(filepath.Base(f), "known-") {
			st.Extra["witness_no_longer_fails:"+filepath.Base(f)] = true
		}
	}
}

func finish(code int) {
	if path := os.Getenv("VERIF_STATS"); path != "" {
		for h := range st.nt {
			st.NonTrivial = append(st.NonTrivial, h)
		}
		sort.Slice(st.NonTrivial, func(i, j int) bool { return st.NonTrivial[i] < st.NonTrivial[j] })
		sort.Slice(st.resv, func(i, j int) bool { return st.resv[i].h < st.resv[j].h })
		for i, e := range st.resv {
			if i >= 5 {
				break
			}
			st.Samples = append(st.Samples, e.v)
		}
		b, _ := json.Marshal(st)
		os.WriteFile(path, b, 0o644)
	}
	asm.Cleanup()
	os.Exit(code)
}
