package props

import (
	"bytes"
	"encoding/binary"
	"fmt"
	"strings"
	"testing"

	"github.com/HobbyOSs/gosk/verifharness/asm"
	"github.com/HobbyOSs/gosk/verifharness/x86asm"
	"pgregory.net/rapid"
)

// ---------------------------------------------------------------------------
// C16 — ORG relocates absolute references and nothing else.

type OrgCase struct {
	P    Prog  `json:"p"`    // 16-bit program; P.Org is the first origin
	Org2 int64 `json:"org2"` // the second origin (-1 = no ORG statement)
	K    int   `json:"k"`    // when > 0: a final "RESB (origin+K)-$" before the table
}

const orgPlaceholder = "@ORGPLUSK@"

func (c *OrgCase) sourceAt(org int64) string {
	p := c.P
	p.Org = org
	s := p.Source()
	o := org
	if o < 0 {
		o = 0
	}
	return strings.ReplaceAll(s, orgPlaceholder, fmt.Sprintf("0x%x", o+int64(c.K)))
}

// immLenAfterModRM: bytes of immediate at the end of a ModR/M instruction (group-1 ALU, MOV imm, shifts).
func immLenAfterModRM(b []byte, dataSize int) int {
	i := 0
	for i < len(b) && (b[i] == 0x66 || b[i] == 0x67) {
		i++
	}
	if i >= len(b) {
		return 0
	}
	switch b[i] {
	case 0x80, 0x82, 0x83, 0xc0, 0xc1, 0xc6, 0x6b:
		return 1
	case 0x81, 0xc7, 0x69:
		return dataSize / 8
	}
	return 0
}

func checkC16(c OrgCase) Verdict {
	s1, s2 := c.sourceAt(c.P.Org), c.sourceAt(c.Org2)
	v := Verdict{Key: s1 + "\x00" + s2}
	o1, o2 := c.P.Org, c.Org2
	if o1 < 0 {
		o1 = 0
	}
	if o2 < 0 {
		o2 = 0
	}
	delta := o2 - o1
	p1, p2 := c.P, c.P
	p1.Org, p2.Org = c.P.Org, c.Org2
	r1, r2 := asm.Assemble(s1), asm.Assemble(s2)
	d1, cls1 := diagnosedC05(r1, asm.Baseline(p1.Header()))
	d2, cls2 := diagnosedC05(r2, asm.Baseline(p2.Header()))
	if d1 && d2 {
		v.Skip = "diagnosed: " + cls1
		return v
	}
	fail := func(kind, f string, a ...any) Verdict {
		v.Fail = fmt.Sprintf(f, a...) + fmt.Sprintf("\n--- source at origin %#x ---\n%s--- output there ---\n% x\n--- output at origin %#x ---\n% x", o1, s1, head(r1.Out, 120), o2, head(r2.Out, 120))
		v.Sig = "C16|" + kind
		return v
	}
	if d1 != d2 {
		return fail("acceptance", "accepted at one origin, diagnosed at the other (%s%s)", cls1, cls2)
	}
	a, b := append([]byte{}, r1.Out...), append([]byte{}, r2.Out...)
	if len(a) != len(b) {
		return fail("length", "output length changes with the origin: %d bytes at %#x, %d bytes at %#x", len(a), o1, len(b), o2)
	}
	offs, bad := MarkerOffsets(&c.P, a)
	offsB, badB := MarkerOffsets(&c.P, b)
	if bad != "" || badB != "" {
		v.Skip = "marker collision"
		return v
	}
	for k, o := range offs {
		if offsB[k] != o {
			return fail("layout", "marker %d moves from offset %d to %d when the origin changes", k, o, offsB[k])
		}
	}
	// every absolute field differs by exactly delta (mod its width); mask it out afterwards
	field := func(o, w int, what string) *Verdict {
		if o+w > len(a) {
			f := fail("field", "%s: field beyond the output", what)
			return &f
		}
		var x, y uint64
		for i := w - 1; i >= 0; i-- {
			x = x<<8 | uint64(a[o+i])
			y = y<<8 | uint64(b[o+i])
		}
		mask := uint64(1)<<(8*uint(w)) - 1
		if (y-x)&mask != uint64(delta)&mask {
			f := fail("delta|"+strings.Fields(what)[0], "%s: value %#x at origin %#x and %#x at origin %#x differ by %#x, the origins differ by %#x", what, x, o1, y, o2, (y-x)&mask, uint64(delta)&mask)
			return &f
		}
		for i := 0; i < w; i++ {
			a[o+i], b[o+i] = 0, 0
		}
		return nil
	}
	nabs, nbranch := 0, 0
	tableAt, ti := -1, 0
	for _, it := range c.P.Items {
		if it.Kind == ItMarker && it.Name == "$table" {
			tableAt = offs[it.Ser] + 6
		}
		if it.Kind != ItStmt || it.RefAs == "" {
			continue
		}
		switch {
		case it.RefAs == "table":
			if f := field(tableAt+4*ti, 4, "table "+it.Text); f != nil {
				return *f
			}
			ti++
			nabs++
		case it.RefAs == "dw", it.RefAs == "dollar":
			if f := field(offs[it.Ser]+6, 2, "data "+it.Text); f != nil {
				return *f
			}
			nabs++
		case it.RefAs == "dd":
			if f := field(offs[it.Ser]+6, 4, "data "+it.Text); f != nil {
				return *f
			}
			nabs++
		case strings.HasPrefix(it.RefAs, "far$:"):
			o := offs[it.Ser] + 6
			ia, err1 := x86asm.Decode(a[o:], 16)
			ib, err2 := x86asm.Decode(b[o:], 16)
			if err1 != nil || err2 != nil || ia.Len != ib.Len || ia.Op != ib.Op {
				return fail("decode", "%q decodes differently at the two origins (%v / %v)", it.Text, err1, err2)
			}
			w := ia.DataSize / 8
			if f := field(o+ia.Len-2-w, w, "insn "+it.Text); f != nil {
				return *f
			}
			nabs++
		case it.RefAs == "mem":
			// the address is a disp16 somewhere inside the instruction (an immediate may follow it): located by decoding
			o := offs[it.Ser] + 6
			ia, err1 := x86asm.Decode(a[o:], 16)
			ib, err2 := x86asm.Decode(b[o:], 16)
			if err1 != nil || err2 != nil || ia.Len != ib.Len || ia.Op != ib.Op {
				return fail("decode", "%q decodes differently at the two origins (%v / %v)", it.Text, err1, err2)
			}
			w := ia.AddrSize / 8
			// an immediate may follow the address: its length is given by the opcode
			immLen := immLenAfterModRM(a[o:o+ia.Len], ia.DataSize)
			if f := field(o+ia.Len-immLen-w, w, "insn "+it.Text); f != nil {
				return *f
			}
			nabs++
		case strings.HasPrefix(it.RefAs, "mov"), it.RefAs == "lgdt":
			o := offs[it.Ser] + 6
			ia, err1 := x86asm.Decode(a[o:], 16)
			ib, err2 := x86asm.Decode(b[o:], 16)
			if err1 != nil || err2 != nil || ia.Len != ib.Len || ia.Op != ib.Op {
				return fail("decode", "%q decodes differently at the two origins (%v / %v)", it.Text, err1, err2)
			}
			w := 2
			if strings.HasPrefix(it.RefAs, "mov32") {
				w = 4
			}
			// the immediate / displacement is the trailing field of both encodings
			if f := field(o+ia.Len-w, w, "insn "+it.Text); f != nil {
				return *f
			}
			nabs++
		case strings.HasPrefix(it.RefAs, "br:"):
			nbranch++
		}
	}
	if !bytes.Equal(a, b) {
		at := 0
		for at < len(a) && a[at] == b[at] {
			at++
		}
		// is it inside a branch?
		where := "other"
		for _, it := range c.P.Items {
			if it.Kind == ItStmt && strings.HasPrefix(it.RefAs, "br:") {
				if o := offs[it.Ser] + 6; at >= o && at < o+4 {
					where = "branch"
				}
			}
		}
		return fail("other|"+where, "a byte that embeds no absolute value changes with the origin: offset %d is % x at %#x and % x at %#x", at, clip(r1.Out, at), o1, clip(r2.Out, at), o2)
	}
	_ = binary.LittleEndian
	v.NonTrivial = nbranch >= 1 && nabs >= 1 && delta != 0
	v.Class = fmt.Sprintf("delta=%v", delta != 0)
	v.Sample = map[string]any{"source": s1, "origins": []int64{c.P.Org, c.Org2}}
	return v
}

var propC16 = &Prop[OrgCase]{
	ID:   "C16",
	Rule: "16-bit programs from the C03 generator (label-target branches, MOV reg,label, DW/DD label, DW $, LGDT [label], ALIGNB n<=16, RESB (origin+K)-$, trailing DD table) assembled at two origins from {none, 0, 0x100, 0x7c00, 0xc200, 0x8000, 0xfff0}; oracle: same acceptance, same length, same marker offsets, every embedded absolute value differs by exactly the delta modulo its width (data fields read raw, instruction fields located by decoding), all other bytes - in particular every branch displacement - identical; no ORG = ORG 0; non-trivial = at least one branch, one absolute reference and a non-zero delta; distinct by the pair of sources",
	Gen: func(t *rapid.T) OrgCase {
		o1 := rapid.SampledFrom(orgSet).Draw(t, "org1")
		o2 := rapid.SampledFrom(orgSet).Draw(t, "org2")
		p := genLabelProg(t, rapid.SampledFrom([]int{0, 16}).Draw(t, "mode"), o1, false)
		// ALIGNB up to 16 only (all origins are multiples of 16)
		c := OrgCase{P: p, Org2: o2}
		if rapid.IntRange(0, 2).Draw(t, "resbto") == 0 {
			c.K = rapid.SampledFrom([]int{0x200, 0x400, 0x1fe}).Draw(t, "k")
			// insert before the table marker
			var items []Item
			for _, it := range p.Items {
				if it.Kind == ItMarker && it.Name == "$table" {
					items = append(items, Item{Kind: ItStmt, Text: "RESB " + orgPlaceholder + "-$", Cls: "resbto"})
				}
				items = append(items, it)
			}
			c.P.Items = items
		}
		return c
	},
	Check: checkC16,
}

func TestC16(t *testing.T) { Run(t, propC16) }
