package props

import (
	"bytes"
	"encoding/binary"
	"fmt"
	"strings"
	"testing"

	"github.com/HobbyOSs/gosk/verifharness/asm"
	"github.com/HobbyOSs/gosk/verifharness/x86asm"
	"pgregory.net/rapid"
)

// ---------------------------------------------------------------------------
// C16 — ORG relocates absolute references and nothing else.

type OrgCase struct {
	P    Prog  `json:"p"`    // 16-bit program; P.Org is the first origin
	Org2 int64 `json:"org2"` // the second origin (-1 = no ORG statement)
	K    int   `json:"k"`    // when > 0: a final "RESB (origin+K)-$" before the table
	// S, when set, replaces all of the above: the instruction-stream family (see checkC16Stream)
	S *OrgStream `json:"s,omitempty"`
}

const orgPlaceholder = "@ORGPLUSK@"

func (c *OrgCase) sourceAt(org int64) string {
	p := c.P
	p.Org = org
	s := p.Source()
	o := org
	if o < 0 {
		o = 0
	}
	return strings.ReplaceAll(s, orgPlaceholder, fmt.Sprintf("0x%x", o+int64(c.K)))
}

// immLenAfterModRM: bytes of immediate at the end of a ModR/M instruction (group-1 ALU, MOV imm, shifts).
func immLenAfterModRM(b []byte, dataSize int) int {
	i := 0
	for i < len(b) && (b[i] == 0x66 || b[i] == 0x67) {
		i++
	}
	if i >= len(b) {
		return 0
	}
	switch b[i] {
	case 0x80, 0x82, 0x83, 0xc0, 0xc1, 0xc6, 0x6b:
		return 1
	case 0x81, 0xc7, 0x69:
		return dataSize / 8
	}
	return 0
}

func checkC16(c OrgCase) Verdict {
	if c.S != nil {
		return checkC16Stream(c.S)
	}
	s1, s2 := c.sourceAt(c.P.Org), c.sourceAt(c.Org2)
	v := Verdict{Key: s1 + "\x00" + s2}
	o1, o2 := c.P.Org, c.Org2
	if o1 < 0 {
		o1 = 0
	}
	if o2 < 0 {
		o2 = 0
	}
	delta := o2 - o1
	p1, p2 := c.P, c.P
	p1.Org, p2.Org = c.P.Org, c.Org2
	r1, r2 := asm.Assemble(s1), asm.Assemble(s2)
	d1, cls1 := diagnosedC05(r1, asm.Baseline(p1.Header()))
	d2, cls2 := diagnosedC05(r2, asm.Baseline(p2.Header()))
	if d1 && d2 {
		v.Skip = "diagnosed: " + cls1
		return v
	}
	fail := func(kind, f string, a ...any) Verdict {
		v.Fail = fmt.Sprintf(f, a...) + fmt.Sprintf("\n--- source at origin %#x ---\n%s--- output there ---\n% x\n--- output at origin %#x ---\n% x", o1, s1, head(r1.Out, 120), o2, head(r2.Out, 120))
		v.Sig = "C16|" + kind
		return v
	}
	if d1 != d2 {
		return fail("acceptance", "accepted at one origin, diagnosed at the other (%s%s)", cls1, cls2)
	}
	a, b := append([]byte{}, r1.Out...), append([]byte{}, r2.Out...)
	if len(a) != len(b) {
		return fail("length", "output length changes with the origin: %d bytes at %#x, %d bytes at %#x", len(a), o1, len(b), o2)
	}
	offs, bad := MarkerOffsets(&c.P, a)
	offsB, badB := MarkerOffsets(&c.P, b)
	if bad != "" || badB != "" {
		v.Skip = "marker collision"
		return v
	}
	for k, o := range offs {
		if offsB[k] != o {
			return fail("layout", "marker %d moves from offset %d to %d when the origin changes", k, o, offsB[k])
		}
	}
	// every absolute field differs by exactly delta (mod its width); mask it out afterwards
	field := func(o, w int, what string) *Verdict {
		if o+w > len(a) {
			f := fail("field", "%s: field beyond the output", what)
			return &f
		}
		var x, y uint64
		for i := w - 1; i >= 0; i-- {
			x = x<<8 | uint64(a[o+i])
			y = y<<8 | uint64(b[o+i])
		}
		mask := uint64(1)<<(8*uint(w)) - 1
		if (y-x)&mask != uint64(delta)&mask {
			f := fail("delta|"+strings.Fields(what)[0], "%s: value %#x at origin %#x and %#x at origin %#x differ by %#x, the origins differ by %#x", what, x, o1, y, o2, (y-x)&mask, uint64(delta)&mask)
			return &f
		}
		for i := 0; i < w; i++ {
			a[o+i], b[o+i] = 0, 0
		}
		return nil
	}
	nabs, nbranch := 0, 0
	tableAt, ti := -1, 0
	for _, it := range c.P.Items {
		if it.Kind == ItMarker && it.Name == "$table" {
			tableAt = offs[it.Ser] + 6
		}
		if it.Kind != ItStmt || it.RefAs == "" {
			continue
		}
		switch {
		case it.RefAs == "table":
			if f := field(tableAt+4*ti, 4, "table "+it.Text); f != nil {
				return *f
			}
			ti++
			nabs++
		case it.RefAs == "dw", it.RefAs == "dollar":
			if f := field(offs[it.Ser]+6, 2, "data "+it.Text); f != nil {
				return *f
			}
			nabs++
		case it.RefAs == "dd":
			if f := field(offs[it.Ser]+6, 4, "data "+it.Text); f != nil {
				return *f
			}
			nabs++
		case strings.HasPrefix(it.RefAs, "far$:"):
			o := offs[it.Ser] + 6
			ia, err1 := x86asm.Decode(a[o:], 16)
			ib, err2 := x86asm.Decode(b[o:], 16)
			if err1 != nil || err2 != nil || ia.Len != ib.Len || ia.Op != ib.Op {
				return fail("decode", "%q decodes differently at the two origins (%v / %v)", it.Text, err1, err2)
			}
			w := ia.DataSize / 8
			if f := field(o+ia.Len-2-w, w, "insn "+it.Text); f != nil {
				return *f
			}
			nabs++
		case it.RefAs == "mem":
			// the address is a disp16 somewhere inside the instruction (an immediate may follow it): located by decoding
			o := offs[it.Ser] + 6
			ia, err1 := x86asm.Decode(a[o:], 16)
			ib, err2 := x86asm.Decode(b[o:], 16)
			if err1 != nil || err2 != nil || ia.Len != ib.Len || ia.Op != ib.Op {
				return fail("decode", "%q decodes differently at the two origins (%v / %v)", it.Text, err1, err2)
			}
			w := ia.AddrSize / 8
			// an immediate may follow the address: its length is given by the opcode
			immLen := immLenAfterModRM(a[o:o+ia.Len], ia.DataSize)
			if f := field(o+ia.Len-immLen-w, w, "insn "+it.Text); f != nil {
				return *f
			}
			nabs++
		case strings.HasPrefix(it.RefAs, "mov"), it.RefAs == "lgdt":
			o := offs[it.Ser] + 6
			ia, err1 := x86asm.Decode(a[o:], 16)
			ib, err2 := x86asm.Decode(b[o:], 16)
			if err1 != nil || err2 != nil || ia.Len != ib.Len || ia.Op != ib.Op {
				return fail("decode", "%q decodes differently at the two origins (%v / %v)", it.Text, err1, err2)
			}
			w := 2
			if strings.HasPrefix(it.RefAs, "mov32") {
				w = 4
			}
			// the immediate / displacement is the trailing field of both encodings
			if f := field(o+ia.Len-w, w, "insn "+it.Text); f != nil {
				return *f
			}
			nabs++
		case strings.HasPrefix(it.RefAs, "br:"):
			nbranch++
		}
	}
	if !bytes.Equal(a, b) {
		at := 0
		for at < len(a) && a[at] == b[at] {
			at++
		}
		// is it inside a branch?
		where := "other"
		for _, it := range c.P.Items {
			if it.Kind == ItStmt && strings.HasPrefix(it.RefAs, "br:") {
				if o := offs[it.Ser] + 6; at >= o && at < o+4 {
					where = "branch"
				}
			}
		}
		return fail("other|"+where, "a byte that embeds no absolute value changes with the origin: offset %d is % x at %#x and % x at %#x", at, clip(r1.Out, at), o1, clip(r2.Out, at), o2)
	}
	v.NonTrivial = nbranch >= 1 && nabs >= 1 && delta != 0
	v.Class = fmt.Sprintf("delta=%v", delta != 0)
	v.Sample = map[string]any{"source": s1, "origins": []int64{c.P.Org, c.Org2}}
	return v
}

var propC16 = &Prop[OrgCase]{
	ID:   "C16",
	Rule: "16-bit programs from the C03 generator (label-target branches, MOV reg,label, DW/DD label, DW $, LGDT [label], ALIGNB n<=16, RESB (origin+K)-$, trailing DD table) assembled at two origins from {none, 0, 0x100, 0x7c00, 0xc200, 0x8000, 0xfff0}; oracle: same acceptance, same length, same marker offsets, every embedded absolute value differs by exactly the delta modulo its width (data fields read raw, instruction fields located by decoding), all other bytes - in particular every branch displacement - identical; no ORG = ORG 0; non-trivial = at least one branch, one absolute reference and a non-zero delta; distinct by the pair of sources; one case in three is an instruction-stream program instead (16- or 32-bit mode, origins up to 0x280000, instructions only: fillers, JMP/CALL/Jcc to labels and to numeric addresses near either origin, closed by a DD table of the labels): both outputs are decoded side by side (x86asm) and must have the same length and instruction boundaries, identical filler bytes, identical displacements for label targets, displacements that differ by minus the delta for numeric targets, table entries that differ by the delta",
	Gen: func(t *rapid.T) OrgCase {
		if rapid.IntRange(0, 2).Draw(t, "family") == 0 {
			return OrgCase{S: genOrgStream(t)}
		}
		o1 := rapid.SampledFrom(orgSet).Draw(t, "org1")
		o2 := rapid.SampledFrom(orgSet).Draw(t, "org2")
		p := genLabelProg(t, rapid.SampledFrom([]int{0, 16}).Draw(t, "mode"), o1, false)
		// ALIGNB up to 16 only (all origins are multiples of 16)
		c := OrgCase{P: p, Org2: o2}
		if rapid.IntRange(0, 2).Draw(t, "resbto") == 0 {
			c.K = rapid.SampledFrom([]int{0x200, 0x400, 0x1fe}).Draw(t, "k")
			// insert before the table marker
			var items []Item
			for _, it := range p.Items {
				if it.Kind == ItMarker && it.Name == "$table" {
					items = append(items, Item{Kind: ItStmt, Text: "RESB " + orgPlaceholder + "-$", Cls: "resbto"})
				}
				items = append(items, it)
			}
			c.P.Items = items
		}
		return c
	},
	Check: checkC16,
}

func TestC16(t *testing.T) { Run(t, propC16) }

// ---------------------------------------------------------------------------
// C16, instruction-stream family: programs made of instructions only (16- or 32-bit mode, origins up to
// 0x280000), with branches to labels and to numeric addresses, closed by a DD table of the labels. The two
// outputs are decoded side by side.

type OrgStream struct {
	Mode  int      `json:"mode"` // 16 or 32
	Lines []string `json:"lines"`
	// Kinds[i]: "f" filler instruction, "l" label definition (no bytes), "b" branch to a label, "n" branch to a numeric address
	Kinds   []string `json:"kinds"`
	NLabels int      `json:"nlabels"`
	O1      int64    `json:"o1"`
	O2      int64    `json:"o2"`
}

func (s *OrgStream) source(org int64) string {
	var sb strings.Builder
	fmt.Fprintf(&sb, "[BITS %d]\n\tORG 0x%x\n", s.Mode, org)
	for i, l := range s.Lines {
		if s.Kinds[i] == "l" {
			sb.WriteString(l + ":\n")
		} else {
			sb.WriteString("\t" + l + "\n")
		}
	}
	for i := 0; i < s.NLabels; i++ {
		fmt.Fprintf(&sb, "\tDD zs%d\n", i)
	}
	return sb.String()
}

func checkC16Stream(s *OrgStream) Verdict {
	s1, s2 := s.source(s.O1), s.source(s.O2)
	v := Verdict{Key: s1 + "\x00" + s2}
	delta := s.O2 - s.O1
	r1, r2 := asm.Assemble(s1), asm.Assemble(s2)
	hdr := func(o int64) string { return fmt.Sprintf("[BITS %d]\n\tORG 0x%x\n", s.Mode, o) }
	d1, cls1 := diagnosedC05(r1, asm.Baseline(hdr(s.O1)))
	d2, cls2 := diagnosedC05(r2, asm.Baseline(hdr(s.O2)))
	if d1 && d2 {
		v.Skip = "diagnosed: " + cls1
		return v
	}
	fail := func(kind, f string, a ...any) Verdict {
		v.Fail = fmt.Sprintf(f, a...) + fmt.Sprintf("\n--- source at origin %#x ---\n%s--- output there ---\n% x\n--- output at origin %#x ---\n% x", s.O1, s1, head(r1.Out, 120), s.O2, head(r2.Out, 120))
		v.Sig = "C16|stream|" + kind
		return v
	}
	if d1 != d2 {
		return fail("acceptance", "accepted at one origin, diagnosed at the other (%s%s)", cls1, cls2)
	}
	a, b := r1.Out, r2.Out
	if len(a) != len(b) {
		return fail("length", "output length changes with the origin: %d bytes at %#x, %d bytes at %#x", len(a), s.O1, len(b), s.O2)
	}
	code := len(a) - 4*s.NLabels
	if code < 0 {
		return fail("length", "output shorter than its closing table")
	}
	mask := uint64(1)<<uint(s.Mode) - 1
	off, nb, nn := 0, 0, 0
	for i, l := range s.Lines {
		if s.Kinds[i] == "l" {
			continue
		}
		if off >= code {
			return fail("decode", "bytes end before %q", l)
		}
		ia, e1 := x86asm.Decode(a[off:code], s.Mode)
		ib, e2 := x86asm.Decode(b[off:code], s.Mode)
		if e1 != nil || e2 != nil || ia.Len != ib.Len || ia.Op != ib.Op {
			return fail("decode|"+s.Kinds[i], "%q at offset %d decodes differently at the two origins (% x / % x)", l, off, clip(a, off), clip(b, off))
		}
		switch s.Kinds[i] {
		case "f":
			if !bytes.Equal(a[off:off+ia.Len], b[off:off+ia.Len]) {
				return fail("other", "%q embeds no address, yet its bytes change with the origin (% x / % x)", l, a[off:off+ia.Len], b[off:off+ia.Len])
			}
		case "b", "n":
			ra, ok1 := ia.Args[0].(x86asm.Rel)
			rb, ok2 := ib.Args[0].(x86asm.Rel)
			if !ok1 || !ok2 {
				return fail("decode|"+s.Kinds[i], "%q does not decode as a relative branch", l)
			}
			if s.Kinds[i] == "b" {
				nb++
				if ra != rb {
					return fail("branch|label", "%q: displacement %d at origin %#x, %d at origin %#x", l, ra, s.O1, rb, s.O2)
				}
			} else {
				nn++
				if (uint64(int64(rb))-uint64(int64(ra)))&mask != uint64(-delta)&mask {
					return fail("branch|numeric", "%q: the target is fixed, so the displacement must change by minus the difference of the origins (%#x): it is %d at %#x and %d at %#x", l, delta, ra, s.O1, rb, s.O2)
				}
			}
		}
		off += ia.Len
	}
	if off != code {
		return fail("length", "%d bytes of code were decoded for the statements, %d were emitted", off, code)
	}
	for k := 0; k < s.NLabels; k++ {
		x := binary.LittleEndian.Uint32(a[code+4*k:])
		y := binary.LittleEndian.Uint32(b[code+4*k:])
		if y-x != uint32(delta) {
			return fail("delta|table", "DD zs%d: %#x at origin %#x and %#x at origin %#x differ by %#x, the origins differ by %#x", k, x, s.O1, y, s.O2, y-x, uint32(delta))
		}
	}
	v.NonTrivial = nb+nn >= 1 && s.NLabels >= 1 && delta != 0
	v.Class = fmt.Sprintf("stream%d delta=%v numeric=%v", s.Mode, delta != 0, nn > 0)
	v.Sample = map[string]any{"source": s1, "origins": []int64{s.O1, s.O2}}
	return v
}

func genOrgStream(t *rapid.T) *OrgStream {
	s := &OrgStream{Mode: rapid.SampledFrom([]int{16, 32, 32}).Draw(t, "smode")}
	orgs := []int64{0, 0x100, 0x7c00, 0xc200, 0xfff0}
	if s.Mode == 32 {
		orgs = append(orgs, 0x10000, 0x1fff0, 0x280000, 0x100000)
	}
	s.O1 = rapid.SampledFrom(orgs).Draw(t, "so1")
	s.O2 = rapid.SampledFrom(orgs).Draw(t, "so2")
	fill16 := []string{"NOP", "MOV AX,1", "ADD BX,CX", "MOV [BX],AL", "PUSH SI", "CLI", "MOV CX,0x1234"}
	fill32 := []string{"NOP", "MOV EAX,1", "ADD EBX,ECX", "MOV [EBX],AL", "PUSH ESI", "CLI", "MOV ECX,0x12345678", "MOV AX,1"}
	fill := fill16
	if s.Mode == 32 {
		fill = fill32
	}
	s.NLabels = rapid.IntRange(1, 4).Draw(t, "snl")
	n := rapid.IntRange(2, 14).Draw(t, "sn")
	// label positions
	pos := map[int][]int{}
	for k := 0; k < s.NLabels; k++ {
		p := rapid.IntRange(0, n).Draw(t, "slpos")
		pos[p] = append(pos[p], k)
	}
	ops := []string{"JMP", "CALL", "JE", "JNE", "JB", "JGE", "JMP", "CALL"}
	for i := 0; i <= n; i++ {
		for _, k := range pos[i] {
			s.Lines = append(s.Lines, fmt.Sprintf("zs%d", k))
			s.Kinds = append(s.Kinds, "l")
		}
		if i == n {
			break
		}
		switch rapid.IntRange(0, 3).Draw(t, "skind") {
		case 0:
			op := rapid.SampledFrom(ops).Draw(t, "sop")
			s.Lines = append(s.Lines, fmt.Sprintf("%s zs%d", op, rapid.IntRange(0, s.NLabels-1).Draw(t, "slab")))
			s.Kinds = append(s.Kinds, "b")
		case 1:
			op := rapid.SampledFrom(ops).Draw(t, "sop")
			base := rapid.SampledFrom([]int64{s.O1, s.O2, 0x8200, 0x280000}).Draw(t, "sbase")
			if s.Mode == 16 {
				base &= 0xffff
			}
			tgt := base + rapid.SampledFrom([]int64{0, 5, 0x10, 0x40, 0x7f, 0x80, 0x100, 0x1234}).Draw(t, "stoff")
			s.Lines = append(s.Lines, fmt.Sprintf("%s 0x%x", op, tgt))
			s.Kinds = append(s.Kinds, "n")
		default:
			s.Lines = append(s.Lines, rapid.SampledFrom(fill).Draw(t, "sfill"))
			s.Kinds = append(s.Kinds, "f")
		}
	}
	return s
}
