package props

import (
	"encoding/binary"
	"fmt"
	"strings"
	"testing"

	"github.com/HobbyOSs/gosk/verifharness/asm"
	"github.com/HobbyOSs/gosk/verifharness/sem"
	"github.com/HobbyOSs/gosk/verifharness/x86asm"
	"pgregory.net/rapid"
)

// ---------------------------------------------------------------------------
// C03 — label and $ values equal the real byte offsets.
//
// Programs carry a unique marker right after every label, and right before
// every statement that embeds a label value, so the true position of
// everything of interest is read from the output itself.

var jccSet = []string{"JA", "JAE", "JB", "JBE", "JC", "JE", "JG", "JGE", "JL", "JLE", "JNA", "JNAE", "JNB", "JNBE", "JNC", "JNE", "JNG", "JNGE", "JNL", "JNLE", "JNO", "JNP", "JNS", "JNZ", "JO", "JP", "JPE", "JPO", "JS", "JZ"}

// genLabelProg draws a program for C03/C16-style oracles.
// opts: bits16only, withBranches
func genLabelProg(t *rapid.T, mode int, org int64, withFar bool) Prog {
	return genLabelProgOpt(t, mode, org, withFar, false)
}

// genLabelProgOpt: dollarNames lets a label be called "$name". gosk accepts such names everywhere except as
// branch targets (pass 2 cannot put them into its templates and gives up), so they are never branched to.
func genLabelProgOpt(t *rapid.T, mode int, org int64, withFar bool, dollarNames bool) Prog {
	p := Prog{Mode: mode, Org: org}
	used := map[string]bool{}
	ser := 1
	n := rapid.IntRange(2, 14).Draw(t, "nstmt")
	nlabels := rapid.IntRange(1, 5).Draw(t, "nlabels")
	// one program in a hundred is long: hundreds of statements and labels (about 1 ms per statement to assemble)
	if withFar && rapid.IntRange(0, 99).Draw(t, "long") == 57 {
		n = rapid.IntRange(300, 1200).Draw(t, "nstmtlong")
		nlabels = rapid.IntRange(20, 300).Draw(t, "nlabelslong")
	}
	names := make([]string, nlabels)
	for i := range names {
		names[i] = genName(t, fmt.Sprintf("lname%d", i), used)
		if dollarNames && rapid.IntRange(0, 9).Draw(t, fmt.Sprintf("ldollar%d", i)) == 4 {
			// ("$" alone is the location counter, and the name must stay unique)
			if cand := "$" + strings.TrimLeft(names[i], "_"); len(cand) > 1 && !used[cand] {
				used[cand] = true
				names[i] = cand
			}
		}
	}
	// positions (statement index after which the label is placed)
	pos := make([]int, nlabels)
	for i := range pos {
		pos[i] = rapid.IntRange(0, n).Draw(t, fmt.Sprintf("lpos%d", i))
	}
	var equNames []string // names defined as "name EQU $"
	m16 := sem.ModeOf(mode) == 16
	// one program in four changes the mode on the way (only where the caller decodes per statement)
	switching := withFar && rapid.IntRange(0, 3).Draw(t, "switching") == 0
	placeLabels := func(at int) {
		for i, ps := range pos {
			if ps == at {
				p.Items = append(p.Items, Item{Kind: ItLabel, Name: names[i]}, Item{Kind: ItMarker, Ser: ser, Name: names[i]})
				ser++
			}
		}
	}
	placeLabels(0)
	for i := 1; i <= n; i++ {
		if switching && rapid.IntRange(0, 3).Draw(t, "switchhere") == 0 {
			mode = rapid.SampledFrom([]int{16, 32}).Draw(t, "newmode")
			m16 = mode == 16
			p.Items = append(p.Items, Item{Kind: ItDir, Text: fmt.Sprintf("[BITS %d]", mode), Cls: "bits"})
		}
		k := rapid.IntRange(0, 11).Draw(t, "kind")
		lab := names[rapid.IntRange(0, nlabels-1).Draw(t, "ref")]
		switch {
		case k == 0: // MOV reg,label (marker before, decoded)
			bits := 16
			if !m16 || rapid.IntRange(0, 3).Draw(t, "mov32") == 0 {
				bits = 32
			}
			reg := regsOf(bits)[rapid.IntRange(0, 7).Draw(t, "movreg")]
			p.Items = append(p.Items, Item{Kind: ItMarker, Ser: ser}, Item{Kind: ItStmt, Text: fmt.Sprintf("MOV %s,%s", reg, lab), Cls: "ref.mov", Ref: lab, RefAs: fmt.Sprintf("mov%d:%s", bits, reg), Ser: ser})
			ser++
		case k == 1: // DW/DD label (backward references only: gosk reports forward data references as unresolved)
			dir := rapid.SampledFrom([]string{"DW", "DD"}).Draw(t, "dwdd")
			var placed []string
			for j, ps := range pos {
				if ps < i {
					placed = append(placed, names[j])
				}
			}
			if len(placed) == 0 {
				text, cls := genPlainStmt(t, mode, true)
				p.Items = append(p.Items, Item{Kind: ItStmt, Text: text, Cls: cls})
				break
			}
			lab = placed[rapid.IntRange(0, len(placed)-1).Draw(t, "bref")]
			p.Items = append(p.Items, Item{Kind: ItMarker, Ser: ser}, Item{Kind: ItStmt, Text: dir + " " + lab, Cls: "ref.data", Ref: lab, RefAs: strings.ToLower(dir), Ser: ser})
			ser++
		case k == 2: // DW $
			p.Items = append(p.Items, Item{Kind: ItMarker, Ser: ser}, Item{Kind: ItStmt, Text: "DW $", Cls: "ref.dollar", RefAs: "dollar", Ser: ser})
			ser++
		case k == 3 && strings.HasPrefix(lab, "$"): // never a branch to a "$name"
			text, cls := genPlainStmt(t, mode, true)
			p.Items = append(p.Items, Item{Kind: ItStmt, Text: text, Cls: cls})
		case k == 3: // branch to a label
			mn := "JMP"
			switch rapid.IntRange(0, 3).Draw(t, "brk") {
			case 0:
				mn = "CALL"
			case 1, 2:
				mn = rapid.SampledFrom(jccSet).Draw(t, "jcc")
			}
			p.Items = append(p.Items, Item{Kind: ItMarker, Ser: ser}, Item{Kind: ItStmt, Text: mn + " " + lab, Cls: "branch", Ref: lab, RefAs: "br:" + mn, Ser: ser})
			ser++
		case k == 4: // RESB n
			p.Items = append(p.Items, Item{Kind: ItStmt, Text: fmt.Sprintf("RESB %d", rapid.SampledFrom([]int{0, 1, 2, 3, 7, 16, 18, 100, 126, 127, 128, 129, 300}).Draw(t, "resb")), Cls: "resb"})
		case k == 5: // ALIGNB
			p.Items = append(p.Items, Item{Kind: ItStmt, Text: fmt.Sprintf("ALIGNB %d", rapid.SampledFrom([]int{1, 2, 4, 8, 16}).Draw(t, "alignb")), Cls: "alignb"})
		case k == 6 && rapid.IntRange(0, 2).Draw(t, "equalias") == 0: // EQU standing for a label (+ constant)
			// (an alias of label+constant is reported by gosk as an operand it cannot parse, so only the plain alias is used)
			nm := genName(t, "equname", used)
			reg := regsOf(16)[rapid.IntRange(0, 7).Draw(t, "er2")]
			p.Items = append(p.Items, Item{Kind: ItEqu, Name: nm, Text: lab}, Item{Kind: ItMarker, Ser: ser},
				Item{Kind: ItStmt, Text: fmt.Sprintf("MOV %s,%s", reg, nm), Cls: "equ.alias", Ref: lab, RefAs: "mov16:" + reg, Ser: ser})
			ser++
		case k == 6: // EQU + use
			nm := genName(t, "equname", used)
			v := rapid.SampledFrom([]int64{0, 1, 0x7f, 0x80, 0xff, 0x100, 0x7fff}).Draw(t, "equv")
			p.Items = append(p.Items, Item{Kind: ItEqu, Name: nm, Text: renderImm(v, 1)},
				Item{Kind: ItStmt, Text: fmt.Sprintf("MOV %s,%s", regsOf(16)[rapid.IntRange(0, 7).Draw(t, "er")], nm), Cls: "equ.use"})
		case k == 10 && rapid.Bool().Draw(t, "equdollar"): // name EQU $ (a label by another spelling), used after its definition
			nm := genName(t, "equdname", used)
			equNames = append(equNames, nm)
			p.Items = append(p.Items, Item{Kind: ItEqu, Name: nm, Text: "$"}, Item{Kind: ItMarker, Ser: ser, Name: nm})
			ser++
			if rapid.Bool().Draw(t, "equdgap") {
				text, cls := genPlainStmt(t, mode, true)
				p.Items = append(p.Items, Item{Kind: ItStmt, Text: text, Cls: cls})
			}
			reg := regsOf(16)[rapid.IntRange(0, 7).Draw(t, "er3")]
			use := rapid.IntRange(0, 3).Draw(t, "equduse")
			if use == 3 && !withFar {
				// (not for C16: the shortest form of a register-relative displacement legitimately depends on its value)
				use = 0
			}
			switch use {
			case 3: // the name as the displacement of a register-relative address
				mt := rapid.SampledFrom([]string{"MOV AL,[SI+%s]", "MOV [BX+DI+%s],CL", "MOV AX,[BX+%s]", "ADD DX,[BP+%s]"}).Draw(t, "equdmem")
				p.Items = append(p.Items, Item{Kind: ItMarker, Ser: ser}, Item{Kind: ItStmt, Text: fmt.Sprintf(mt, nm), Cls: "equ.dollar", Ref: nm, RefAs: "memd", Ser: ser})
			case 0:
				p.Items = append(p.Items, Item{Kind: ItMarker, Ser: ser}, Item{Kind: ItStmt, Text: fmt.Sprintf("MOV %s,%s", reg, nm), Cls: "equ.dollar", Ref: nm, RefAs: "mov16:" + reg, Ser: ser})
			case 1:
				p.Items = append(p.Items, Item{Kind: ItMarker, Ser: ser}, Item{Kind: ItStmt, Text: "DW " + nm, Cls: "equ.dollar", Ref: nm, RefAs: "dw", Ser: ser})
			default:
				p.Items = append(p.Items, Item{Kind: ItMarker, Ser: ser}, Item{Kind: ItStmt, Text: "DD " + nm, Cls: "equ.dollar", Ref: nm, RefAs: "dd", Ser: ser})
			}
			ser++
		case k == 11 && rapid.IntRange(0, 2).Draw(t, "fardollar") == 0: // far jump whose offset is written relative to $
			fk := rapid.SampledFrom([]int{0, 5, 8, 0x20}).Draw(t, "fardk")
			kw := ""
			if !m16 || rapid.Bool().Draw(t, "fardkw") {
				kw = "DWORD "
			}
			ftext := fmt.Sprintf("JMP %s%d:$+%d", kw, rapid.SampledFrom([]int{0, 8, 16}).Draw(t, "fardsel"), fk)
			p.Items = append(p.Items, Item{Kind: ItMarker, Ser: ser}, Item{Kind: ItStmt, Text: ftext, Cls: "far.dollar", RefAs: fmt.Sprintf("far$:%d", fk), Ser: ser})
			ser++
		case k == 7 && withFar: // far jump
			// with and without a size keyword (in 16-bit mode the offset then has 16 bits)
			kw := rapid.SampledFrom([]string{"DWORD ", "DWORD ", "", "WORD "}).Draw(t, "farkw")
			offs := []int64{0, 0x1b, 0x280000}
			if kw != "DWORD " {
				offs = []int64{0, 0x1b, 0x1234}
			}
			ftext := fmt.Sprintf("JMP %s%d:0x%x", kw, rapid.SampledFrom([]int{8, 16, 0x28}).Draw(t, "sel"), rapid.SampledFrom(offs).Draw(t, "foff"))
			if !accepts(mode, ftext) {
				ftext = "JMP DWORD 8:0x1b"
			}
			p.Items = append(p.Items, Item{Kind: ItStmt, Text: ftext, Cls: "farjmp"})
		case k == 8 && rapid.Bool().Draw(t, "memref"): // the label as the address of a memory operand
			mt := rapid.SampledFrom([]string{"MOV CX,[%s]", "MOV AX,[%s]", "MOV [%s],AL", "MOV [%s],DX", "ADD BYTE [%s],1", "CMP WORD [%s],0x1234", "PUSH WORD [%s]", "MOV EDX,[%s]", "MOV [%s],EAX", "SUB SI,[%s]", "MOV BYTE [%s],7",
				"SAR WORD [%s],1", "SHL BYTE [%s],2", "SHR DWORD [%s],3", "NOT WORD [%s]", "AND WORD [%s],0x0f", "XOR [%s],AX", "OR BYTE [%s],1", "POP WORD [%s]", "CMP [%s],CL", "SUB BYTE [%s],1"}).Draw(t, "memtmpl")
			p.Items = append(p.Items, Item{Kind: ItMarker, Ser: ser}, Item{Kind: ItStmt, Text: fmt.Sprintf(mt, lab), Cls: "ref.mem", Ref: lab, RefAs: "mem", Ser: ser})
			ser++
		case k == 8: // LGDT [label]
			p.Items = append(p.Items, Item{Kind: ItMarker, Ser: ser}, Item{Kind: ItStmt, Text: "LGDT [" + lab + "]", Cls: "ref.lgdt", Ref: lab, RefAs: "lgdt", Ser: ser})
			ser++
		case k == 9 && withFar && rapid.Bool().Draw(t, "numbr"): // branch to a numeric address (sized as the near form; its displacement depends on the origin, so C16 leaves it out)
			mn := rapid.SampledFrom([]string{"JMP", "CALL", "JE", "JNZ", "JA"}).Draw(t, "numbrmn")
			p.Items = append(p.Items, Item{Kind: ItStmt, Text: fmt.Sprintf("%s 0x%x", mn, rapid.SampledFrom([]int64{0, 0x1234, 0x7c00, 0xc200}).Draw(t, "numbrt")), Cls: "branch.num"})
		default:
			text, cls := genPlainStmt(t, mode, true)
			p.Items = append(p.Items, Item{Kind: ItStmt, Text: text, Cls: cls})
		}
		placeLabels(i)
	}
	// trailing table
	p.Items = append(p.Items, Item{Kind: ItMarker, Ser: ser, Name: "$table"})
	ser++
	for _, nm := range append(append([]string{}, names...), equNames...) {
		p.Items = append(p.Items, Item{Kind: ItStmt, Text: "DD " + nm, Cls: "table", Ref: nm, RefAs: "table"})
	}
	p.Items = append(p.Items, Item{Kind: ItMarker, Ser: ser}, Item{Kind: ItStmt, Text: "DW $", Cls: "ref.dollar", RefAs: "dollar", Ser: ser})
	return p
}

// labelAddrs returns label -> true address (origin + offset of its marker).
func labelAddrs(p *Prog, offs map[int]int) map[string]int64 {
	la := map[string]int64{}
	for _, it := range p.Items {
		if it.Kind == ItMarker && it.Name != "" && it.Name != "$table" {
			la[it.Name] = p.Origin() + int64(offs[it.Ser])
		}
	}
	return la
}

// stmtBefore describes what precedes the first label whose value is wrong (for signatures).
func classBeforeLabel(p *Prog, name string) string {
	prev := "start"
	for _, it := range p.Items {
		if it.Kind == ItLabel && it.Name == name {
			return prev
		}
		if it.Kind == ItStmt {
			prev = it.Cls
			if it.Cls == "branch" {
				prev = "branch:" + strings.Fields(it.Text)[0]
			}
		}
	}
	return prev
}

// checkLabelProg is the C03 oracle. It returns a Verdict with Fail/Sig set on mismatch.
func checkLabelProg(pid string, p *Prog) Verdict {
	v := Verdict{Key: p.Source()}
	src := p.Source()
	r := asm.Assemble(src)
	// the DW/DB truncation warning is by-spec (low bits are emitted; values are compared modulo the field width)
	if d, cls := diagnosedC05(r, asm.Baseline(p.BaselineSource())); d {
		v.Skip = "diagnosed: " + cls
		return v
	}
	out := r.Out
	offs, bad := MarkerOffsets(p, out)
	if bad != "" {
		// a marker that is missing or duplicated means bytes were lost or invented
		v.Fail = fmt.Sprintf("accepted program, but %s in the output\n%s", bad, src)
		v.Sig = pid + "|marker-lost"
		return v
	}
	la := labelAddrs(p, offs)
	mode := sem.ModeOf(p.Mode)
	// the mode in force at every item ([BITS n] items change it)
	modeAt := make([]int, len(p.Items))
	switches := false
	{
		cur := mode
		for i, it := range p.Items {
			if it.Kind == ItDir && it.Cls == "bits" {
				fmt.Sscanf(it.Text, "[BITS %d]", &cur)
				switches = true
			}
			modeAt[i] = cur
		}
	}
	org := p.Origin()
	// 16-bit branches to labels that do not fit rel8 are sized short by pass 1 (known finding F08)
	farBranch := ""
	nrefs := 0
	fail := func(kind, cls string, f string, a ...any) Verdict {
		v.Fail = fmt.Sprintf(f, a...) + "\n--- source ---\n" + src + fmt.Sprintf("--- output ---\n% x", out)
		v.Sig = fmt.Sprintf("%s|%s|mode=%d|after=%s%s", pid, kind, mode, cls, farBranch)
		if switches {
			v.Sig += "|modeswitch"
		}
		// single-statement sweep programs name their statement, so that a recorded finding can be told apart
		var only []string
		for _, it := range p.Items {
			if it.Kind == ItStmt && it.RefAs == "" {
				only = append(only, it.Text)
			}
		}
		if len(only) == 1 {
			v.Sig += "|sweep=" + strings.Fields(only[0])[0]
		}
		return v
	}
	for i, it := range p.Items {
		if it.Kind != ItStmt || !strings.HasPrefix(it.RefAs, "br:") {
			continue
		}
		at := org + int64(offs[it.Ser]) + 6
		d := la[it.Ref] - at
		if modeAt[i] == 16 && it.RefAs != "br:CALL" && (d-2 < -128 || d-2 > 127) {
			farBranch = "|far16branch"
		}
	}
	// total length
	if int64(len(out)) != int64(r.LOC)-org {
		last := "?"
		for _, it := range p.Items {
			if it.Kind == ItStmt {
				last = it.Cls
			}
		}
		_ = last
		return fail("length", "total", "output has %d bytes but the location counter advanced by %d", len(out), int64(r.LOC)-org)
	}
	tableAt := -1
	ti := 0
	for i, it := range p.Items {
		mode := modeAt[i]
		if it.Kind == ItMarker && it.Name == "$table" {
			tableAt = offs[it.Ser] + 6
		}
		if it.Kind != ItStmt || it.RefAs == "" {
			continue
		}
		want := la[it.Ref]
		switch {
		case it.RefAs == "table":
			o := tableAt + 4*ti
			ti++
			if o+4 > len(out) {
				return fail("table", "table", "table entry for %s beyond end of output", it.Ref)
			}
			got := int64(binary.LittleEndian.Uint32(out[o:]))
			nrefs++
			if got != want&0xffffffff {
				return fail("label", classBeforeLabel(p, it.Ref), "label %s: DD embeds %#x, the labelled statement really starts at %#x", it.Ref, got, want)
			}
		case it.RefAs == "dw" || it.RefAs == "dd":
			o := offs[it.Ser] + 6
			var got, w int64
			if it.RefAs == "dw" {
				got, w = int64(binary.LittleEndian.Uint16(out[o:])), want&0xffff
			} else {
				got, w = int64(binary.LittleEndian.Uint32(out[o:])), want&0xffffffff
			}
			nrefs++
			if got != w {
				return fail("label", classBeforeLabel(p, it.Ref), "label %s: %s embeds %#x, the labelled statement really starts at %#x", it.Ref, strings.ToUpper(it.RefAs), got, want)
			}
		case it.RefAs == "dollar":
			o := offs[it.Ser] + 6
			got := int64(binary.LittleEndian.Uint16(out[o:]))
			w := (org + int64(o)) & 0xffff
			nrefs++
			if got != w {
				return fail("dollar", "dollar", "DW $ at offset %#x embeds %#x, expected %#x", o, got, w)
			}
		case strings.HasPrefix(it.RefAs, "mov"):
			o := offs[it.Ser] + 6
			inst, err := x86asm.Decode(out[o:], mode)
			if err != nil {
				return fail("decode", "mov", "MOV reg,label at %#x does not decode: %v", o, err)
			}
			bits := 16
			if strings.HasPrefix(it.RefAs, "mov32") {
				bits = 32
			}
			reg := it.RefAs[strings.Index(it.RefAs, ":")+1:]
			im, ok := inst.Args[1].(x86asm.Imm)
			rg, ok2 := inst.Args[0].(x86asm.Reg)
			if inst.Op != x86asm.MOV || !ok || !ok2 || rg.String() != reg {
				return fail("decode", "mov", "%q at %#x decodes as %q", it.Text, o, x86asm.IntelSyntax(inst, 0, nil))
			}
			mask := int64(1)<<uint(bits) - 1
			nrefs++
			if int64(im)&mask != want&mask {
				return fail("label", classBeforeLabel(p, it.Ref), "label %s: %q embeds %#x, the labelled statement really starts at %#x", it.Ref, it.Text, int64(im)&mask, want)
			}
		case strings.HasPrefix(it.RefAs, "br:"):
			o := offs[it.Ser] + 6
			inst, err := x86asm.Decode(out[o:], mode)
			if err != nil {
				return fail("decode", "branch", "%q at %#x does not decode: %v", it.Text, o, err)
			}
			rel, ok := inst.Args[0].(x86asm.Rel)
			if !ok {
				return fail("decode", "branch", "%q at %#x decodes as %q", it.Text, o, x86asm.IntelSyntax(inst, 0, nil))
			}
			target := org + int64(o) + int64(inst.Len) + int64(rel)
			if inst.DataSize == 16 {
				// IP wraps at 64 KiB: addresses are compared modulo 2^16
				target &= 0xffff
				want &= 0xffff
			}
			nrefs++
			if target != want {
				return fail("branch", classBeforeLabel(p, it.Ref), "%q at %#x lands on %#x, label %s is at %#x", it.Text, org+int64(o), target, it.Ref, want)
			}
		case it.RefAs == "memd":
			o := offs[it.Ser] + 6
			inst, err := x86asm.Decode(out[o:], mode)
			if err != nil {
				return fail("decode", "memd", "%q at %#x does not decode: %v", it.Text, o, err)
			}
			var me x86asm.Mem
			found := false
			for _, a := range inst.Args {
				if m, ok := a.(x86asm.Mem); ok {
					me, found = m, true
				}
			}
			nrefs++
			m := int64(1)<<uint(inst.AddrSize) - 1
			if !found || me.Base == 0 || me.Disp&m != want&m {
				return fail("label", classBeforeLabel(p, it.Ref), "name %s (defined as $): %q decodes as %q, the definition really sits at %#x", it.Ref, it.Text, x86asm.IntelSyntax(inst, 0, nil), want)
			}
		case strings.HasPrefix(it.RefAs, "far$:"):
			o := offs[it.Ser] + 6
			var fk int64
			fmt.Sscanf(it.RefAs, "far$:%d", &fk)
			inst, err := x86asm.Decode(out[o:], mode)
			if err != nil || len(inst.Args) < 2 {
				return fail("decode", "far", "%q at %#x does not decode as a far jump: %v", it.Text, o, err)
			}
			off, ok := inst.Args[1].(x86asm.Imm)
			if _, ok0 := inst.Args[0].(x86asm.Imm); !ok || !ok0 {
				return fail("decode", "far", "%q at %#x decodes as %q", it.Text, o, x86asm.IntelSyntax(inst, 0, nil))
			}
			m := int64(1)<<uint(inst.DataSize) - 1
			nrefs++
			if w := org + int64(o) + fk; int64(off)&m != w&m {
				return fail("dollar", "far", "%q at %#x jumps to offset %#x, $+%d is %#x", it.Text, org+int64(o), int64(off)&m, fk, w&m)
			}
		case it.RefAs == "mem":
			o := offs[it.Ser] + 6
			inst, err := x86asm.Decode(out[o:], mode)
			if err != nil {
				return fail("decode", "mem", "%q at %#x does not decode: %v", it.Text, o, err)
			}
			var me x86asm.Mem
			found := false
			for _, a := range inst.Args {
				if m, ok := a.(x86asm.Mem); ok {
					me, found = m, true
				}
			}
			nrefs++
			m := int64(1)<<uint(inst.AddrSize) - 1
			if !found || me.Base != 0 || me.Index != 0 || me.Disp&m != want&m || sem.CanonOp(inst.Op.String()) != sem.CanonOp(strings.Fields(it.Text)[0]) {
				return fail("label", classBeforeLabel(p, it.Ref), "label %s: %q decodes as %q, the labelled statement really starts at %#x", it.Ref, it.Text, x86asm.IntelSyntax(inst, 0, nil), want)
			}
		case it.RefAs == "lgdt":
			o := offs[it.Ser] + 6
			inst, err := x86asm.Decode(out[o:], mode)
			if err != nil || inst.Op != x86asm.LGDT {
				return fail("decode", "lgdt", "%q at %#x does not decode as LGDT (%v)", it.Text, o, err)
			}
			me, ok := inst.Args[0].(x86asm.Mem)
			nrefs++
			abits := inst.AddrSize
			m := int64(1)<<uint(abits) - 1
			if !ok || me.Base != 0 || me.Index != 0 || me.Disp&m != want&m {
				return fail("label", classBeforeLabel(p, it.Ref), "label %s: %q designates %v, the labelled statement really starts at %#x", it.Ref, it.Text, inst.Args[0], want)
			}
		}
	}
	// non-trivial: some label has a statement before it and is referenced
	nt := false
	seenStmt := false
	for _, it := range p.Items {
		if it.Kind == ItStmt && it.Cls != "table" {
			seenStmt = true
		}
		if it.Kind == ItLabel && seenStmt {
			nt = true
		}
	}
	v.NonTrivial = nt && nrefs > 0
	cls := map[string]bool{}
	prev := "start"
	for _, it := range p.Items {
		if it.Kind == ItStmt {
			prev = it.Cls
		}
		if it.Kind == ItLabel {
			cls[prev] = true
		}
	}
	v.Class = fmt.Sprintf("mode%d", mode)
	if switches {
		v.Class += ",modeswitch"
	}
	if len(p.Items) > 300 {
		v.Class += ",long"
	}
	for k := range cls {
		st.Classes["label-after:"+k]++
	}
	if len(src) < 4000 {
		v.Sample = map[string]any{"source": src, "bytes": len(out)}
	}
	return v
}

var propC03 = &Prop[Prog]{
	ID:   "C03",
	Rule: "programs of 2-14 statements (one in a hundred: 300-1200 statements with 20-300 labels; one in four with [BITS n] switches on the way) from every size class (instructions incl. prefixes/SIB/disp32, DB/DW/DD, RESB, ALIGNB, EQU, INT 3/INT n, branches, LGDT, far JMP) with 1-5 labels at arbitrary positions, each followed by a unique marker; references before and after definition (MOV reg,label; DW/DD label; branches; LGDT [label]; the label as the address of a memory operand of MOV, the ALU and shift operations, NOT, PUSH and POP; trailing DD table; DW $), names defined as 'name EQU $' and used like labels after their definition, label names that start with '$' (never branched to); ORG from the quantifier's set; oracle: embedded value = origin + marker offset, output length = location counter - origin; non-trivial = accepted, a label with a statement before it, at least one reference; distinct by source text",
	Gen: func(t *rapid.T) Prog {
		mode := rapid.SampledFrom([]int{0, 16, 32}).Draw(t, "mode")
		org := rapid.SampledFrom(orgSet).Draw(t, "org")
		if mode == 32 && rapid.IntRange(0, 3).Draw(t, "bigorg") == 0 {
			org = rapid.SampledFrom([]int64{0x10000, 0x280000, 0x12345670}).Draw(t, "bigorgv") // label values above 64 KiB
		}
		return genLabelProgOpt(t, mode, org, true, true)
	},
	Check: func(p Prog) Verdict { return checkLabelProg("C03", &p) },
	Enum: func(tier string, yield func(Prog)) bool {
		// systematic sweep: statement kind K immediately before a referenced label
		enumStmtBeforeLabel(tier, yield)
		return false
	},
}

// enumStmtBeforeLabel: for every catalogue form (first cell of its cross
// product plus a few others) x both modes x all origins: "K ; lbl: marker ; DD lbl".
func enumStmtBeforeLabel(tier string, yield func(Prog)) {
	var stmts []struct{ text, cls string }
	rot := 0
	for _, f := range allInstForms() {
		// every boundary immediate / memory shape / absolute address of the form, one register per register slot
		enumFormReduced(f, &rot, func(s sem.Stmt) {
			stmts = append(stmts, struct{ text, cls string }{s.Render(), f.Class})
		})
		if tier != "quick" {
			k := 0
			enumForm(f, func(s sem.Stmt) {
				// and a sparse, deterministic sample of the full cross product
				if k%37 == 5 {
					stmts = append(stmts, struct{ text, cls string }{s.Render(), f.Class})
				}
				k++
			})
		}
	}
	orgs := []int64{-1, 0x7c00, 0xfff0}
	if tier == "quick" {
		orgs = []int64{0x7c00}
	}
	for _, x := range []string{"DB 1", "DB 1,2,3", `DB "hello"`, "DW 1", "DW 1,2", "DD 1", "DD 1,2", "RESB 0", "RESB 1", "RESB 300", "ALIGNB 4", "ALIGNB 16", "INT 3", "INT 0x10", "RET", "JMP 0x1234", "JE 0x1234", "CALL 0x1234", "JMP DWORD 16:0x1b", "LGDT [0x1234]", "MOV AX,[BX+SI+300]", "MOV AX,[EBX+300]", "MOV EAX,[EBP]", "MOV AL,[EAX+EBX*4]", "MOV AX,[EBX*2+8]", "MOV [EBP+ECX*8],DL", "PUSH 300", "PUSH 0x12345678"} {
		stmts = append(stmts, struct{ text, cls string }{x, "sweep"})
	}
	for _, s := range stmts {
		for _, mode := range []int{0, 32} {
			for _, org := range orgs {
				p := Prog{Mode: mode, Org: org}
				p.Items = []Item{
					{Kind: ItStmt, Text: s.text, Cls: s.cls},
					{Kind: ItLabel, Name: "qlbl"}, {Kind: ItMarker, Ser: 1, Name: "qlbl"},
					{Kind: ItMarker, Ser: 2, Name: "$table"},
					{Kind: ItStmt, Text: "DD qlbl", Cls: "table", Ref: "qlbl", RefAs: "table"},
				}
				yield(p)
			}
		}
	}
}

func TestC03(t *testing.T) { Run(t, propC03) }
