package props

import (
	"bytes"
	"fmt"
	"os"
	"path/filepath"
	"sort"
	"strings"
	"sync"
	"testing"

	"github.com/HobbyOSs/gosk/verifharness/asm"
	"pgregory.net/rapid"
)

// ---------------------------------------------------------------------------
// C12 — comments, spacing and line endings never change the output.
//
// A program is a list of token lines. The canonical layout joins tokens with
// the minimum white space; a re-layout changes only what lies between tokens
// (and adds comments / blank lines / line-ending style).

// LTok: Glue = needs at least one blank before it when the previous token is
// a word (identifier/number/keyword); otherwise any amount (incl. none) of
// blanks may separate it from the previous token.
type LTok struct {
	T    string `json:"t"`
	Word bool   `json:"w,omitempty"`
}

type LLine struct {
	Kind string `json:"k"` // label | stmt
	Toks []LTok `json:"toks"`
}

// tokenizeLine splits one comment-free source line into tokens.
func tokenizeLine(line string) (LLine, bool) {
	s := strings.TrimSpace(line)
	if s == "" {
		return LLine{}, false
	}
	var toks []LTok
	isWord := func(c byte) bool {
		return c == '_' || c == '$' || c == '.' || (c >= '0' && c <= '9') || (c >= 'a' && c <= 'z') || (c >= 'A' && c <= 'Z')
	}
	for i := 0; i < len(s); {
		c := s[i]
		switch {
		case c == ' ' || c == '\t':
			i++
		case c == '"':
			j := i + 1
			for j < len(s) && s[j] != '"' {
				j++
			}
			if j < len(s) {
				j++
			}
			toks = append(toks, LTok{T: s[i:j], Word: true})
			i = j
		case c == '\'':
			j := i + 1
			for j < len(s) && s[j] != '\'' {
				j++
			}
			if j < len(s) {
				j++
			}
			toks = append(toks, LTok{T: s[i:j], Word: true})
			i = j
		case isWord(c):
			j := i
			for j < len(s) && isWord(s[j]) {
				j++
			}
			w := s[i:j]
			// a label keeps its colon
			if j < len(s) && s[j] == ':' && len(toks) == 0 && strings.TrimSpace(s[j+1:]) == "" {
				j++
				w = s[i:j]
			}
			toks = append(toks, LTok{T: w, Word: true})
			i = j
		case c == '-' && i+1 < len(s) && s[i+1] >= '0' && s[i+1] <= '9' && (len(toks) == 0 || !toks[len(toks)-1].Word && toks[len(toks)-1].T != "]" && toks[len(toks)-1].T != ")" || isMnemonicPos(toks)):
			// unary minus belongs to the number literal
			j := i + 1
			for j < len(s) && isWord(s[j]) {
				j++
			}
			toks = append(toks, LTok{T: s[i:j], Word: true})
			i = j
		default:
			toks = append(toks, LTok{T: string(c)})
			i++
		}
	}
	l := LLine{Kind: "stmt", Toks: toks}
	if len(toks) == 1 && strings.HasSuffix(toks[0].T, ":") {
		l.Kind = "label"
	}
	return l, true
}

// isMnemonicPos: the previous token is the mnemonic (first token of the line),
// so a following "-5" is an operand, not a subtraction.
func isMnemonicPos(toks []LTok) bool { return len(toks) == 1 && toks[0].Word }

// stripComment removes a ; or # comment outside double-quoted strings.
func stripComment(line string) string {
	inq := false
	for i := 0; i < len(line); i++ {
		switch {
		case line[i] == '"':
			inq = !inq
		case !inq && (line[i] == ';' || line[i] == '#'):
			return line[:i]
		}
	}
	return line
}

func tokenizeSource(src string) []LLine {
	var out []LLine
	for _, raw := range strings.Split(strings.ReplaceAll(src, "\r", ""), "\n") {
		if l, ok := tokenizeLine(stripComment(raw)); ok {
			out = append(out, l)
		}
	}
	return out
}

// bracket directives ([BITS 32], [FORMAT "WCOFF"]) admit no blank inside except after the keyword
func isDirective(l LLine) bool { return len(l.Toks) > 0 && l.Toks[0].T == "[" }

func canonical(lines []LLine) string {
	var sb strings.Builder
	for _, l := range lines {
		if l.Kind != "label" {
			sb.WriteString("\t")
		}
		for i, t := range l.Toks {
			if i > 0 && t.Word && l.Toks[i-1].Word {
				sb.WriteString(" ")
			}
			sb.WriteString(t.T)
		}
		sb.WriteString("\n")
	}
	return sb.String()
}

// Layout describes one re-layout: per line, the white space put into each gap,
// the indentation, a trailing blank run, an optional comment and lines
// (blank / comment) inserted before it.
type LineLayout struct {
	Indent  string   `json:"indent"`
	Gaps    []string `json:"gaps"` // len = len(toks)-1
	Trail   string   `json:"trail"`
	Comment string   `json:"comment,omitempty"` // including its ; or #
	Before  []string `json:"before,omitempty"`  // whole lines: "" or a comment line
}

type LayoutCase struct {
	Corpus  string       `json:"corpus,omitempty"` // corpus file name, or ""
	Lines   []LLine      `json:"lines,omitempty"`  // generated program (when Corpus == "")
	Layout  []LineLayout `json:"layout"`
	EOL     string       `json:"eol"`     // "\n" "\r\n" "\r"
	FinalNL bool         `json:"finalnl"` // final line break present
	Tail    []string     `json:"tail,omitempty"`
	// CLI: the re-laid-out source is also assembled by the gosk binary (which reads, decodes and normalises the
	// file itself). Big > 0: one of its comments is that many bytes long.
	CLI bool `json:"cli,omitempty"`
	Big int  `json:"big,omitempty"`
}

func render(lines []LLine, c *LayoutCase) string {
	var sb strings.Builder
	for i, l := range lines {
		lay := LineLayout{}
		if i < len(c.Layout) {
			lay = c.Layout[i]
		}
		for _, b := range lay.Before {
			sb.WriteString(b)
			sb.WriteString(c.EOL)
		}
		if l.Kind != "label" {
			ind := lay.Indent
			if ind == "" {
				ind = "\t"
			}
			sb.WriteString(ind)
		} else {
			sb.WriteString(lay.Indent)
		}
		for j, t := range l.Toks {
			if j > 0 {
				g := ""
				if j-1 < len(lay.Gaps) {
					g = lay.Gaps[j-1]
				}
				if isDirective(l) && !(j == 2) {
					g = "" // "[BITS" "32" "]": only the gap after the keyword is free
				}
				if t.T == ":" || l.Toks[j-1].T == ":" {
					g = "" // seg:off admits no blank around its colon (not one of the gaps the property lists)
				}
				if g == "" && t.Word && l.Toks[j-1].Word {
					g = " "
				}
				sb.WriteString(g)
			}
			sb.WriteString(t.T)
		}
		sb.WriteString(lay.Trail)
		sb.WriteString(lay.Comment)
		if c.Big > 0 && i == len(lines)/2 {
			if lay.Comment == "" {
				sb.WriteString(" ;")
			}
			// Japanese text: almost every byte offset inside it lies in the middle of a character
			sb.WriteString(strings.Repeat("\u3042\u30a2\u4e9c", c.Big/9+1))
		}
		last := i == len(lines)-1
		if !last || c.FinalNL || l.Kind == "label" || len(c.Tail) > 0 {
			sb.WriteString(c.EOL)
		}
	}
	for i, b := range c.Tail {
		sb.WriteString(b)
		if i < len(c.Tail)-1 || c.FinalNL {
			sb.WriteString(c.EOL)
		}
	}
	return sb.String()
}

var (
	corpusOnce  sync.Once
	corpusNames []string
	corpusLines = map[string][]LLine{}
)

func loadCorpus() {
	corpusOnce.Do(func() {
		dir := os.Getenv("VERIF_DIR")
		if dir == "" {
			dir = "/verif"
		}
		files, _ := filepath.Glob(filepath.Join(dir, "corpus", "*.nas"))
		sort.Strings(files)
		for _, f := range files {
			b, err := os.ReadFile(f)
			if err != nil {
				continue
			}
			lines := tokenizeSource(string(b))
			// the canonical form must itself assemble like the original file (tokenizer sanity)
			r0, r1 := asm.Assemble(string(b)), asm.Assemble(canonical(lines))
			if r0.Failed() || r1.Failed() || !bytes.Equal(r0.Out, r1.Out) || len(r0.Out) == 0 {
				continue
			}
			n := filepath.Base(f)
			corpusNames = append(corpusNames, n)
			corpusLines[n] = lines
		}
	})
}

func checkC12(c LayoutCase) Verdict {
	loadCorpus()
	lines := c.Lines
	if c.Corpus != "" {
		lines = corpusLines[c.Corpus]
		if lines == nil {
			return Verdict{Skip: "corpus file not available"}
		}
	}
	can := canonical(lines)
	re := render(lines, &c)
	if c.CLI {
		// cases that also go through the binary end with string data beyond ASCII: the bytes of a string depend on
		// how the file was decoded, and that must not depend on the layout
		tail := "\tDB \"\u65e5\u672c\",\"caf\u00e9\",0\n"
		if !strings.HasSuffix(can, "\n") {
			can += "\n"
		}
		can += tail
		if !strings.HasSuffix(re, "\n") && !strings.HasSuffix(re, "\r") {
			re += c.EOL
		}
		re += strings.ReplaceAll(tail, "\n", c.EOL)
	}
	v := Verdict{Key: re}
	r0, r1 := asm.Assemble(can), asm.Assemble(re)
	if r0.Panic != "" || r1.Panic != "" {
		v.Skip = "panic (C13 decides)"
		return v
	}
	fail := func(kind, f string, a ...any) Verdict {
		v.Fail = fmt.Sprintf(f, a...) + fmt.Sprintf("\n--- canonical layout ---\n%s--- re-laid-out (quoted) ---\n%q", head([]byte(can), 1800), head([]byte(re), 2400))
		v.Sig = "C12|" + kind
		return v
	}
	if (r0.ParseErr == "") != (r1.ParseErr == "") {
		return fail("acceptance|eol="+fmt.Sprintf("%q", c.EOL), "the canonical layout parses: %v, the re-laid-out source parses: %v (%s%s)", r0.ParseErr == "", r1.ParseErr == "", r0.ParseErr, r1.ParseErr)
	}
	if r0.ParseErr != "" {
		v.Skip = "canonical form does not parse"
		return v
	}
	if !bytes.Equal(r0.Out, r1.Out) {
		at := 0
		for at < len(r0.Out) && at < len(r1.Out) && r0.Out[at] == r1.Out[at] {
			at++
		}
		return fail("bytes", "output changes with the layout: offset %d, canonical % x, re-laid-out % x (lengths %d / %d)", at, clip(r0.Out, at), clip(r1.Out, at), len(r0.Out), len(r1.Out))
	}
	if c.CLI && asm.GoskPath() != "" && !r0.Failed() {
		b, ok := asm.FreshProcessBytes(re)
		if !ok && asm.FreshProcessUndecided(re) {
			v.Skip = "the gosk binary did not finish (time-out or start failure): inconclusive"
			return v
		}
		if !ok {
			return fail("cli-acceptance|eol="+fmt.Sprintf("%q", c.EOL), "the library assembles the re-laid-out source, the gosk binary fails on it")
		}
		if !bytes.Equal(b, r0.Out) {
			at := 0
			for at < len(b) && at < len(r0.Out) && b[at] == r0.Out[at] {
				at++
			}
			return fail("cli-bytes|eol="+fmt.Sprintf("%q", c.EOL), "output of the gosk binary changes with the layout: offset %d, canonical % x, re-laid-out % x (lengths %d / %d)", at, clip(r0.Out, at), clip(b, at), len(r0.Out), len(b))
		}
		st.Classes["through-binary"]++
	}
	// non-trivial: >= 3 edits of >= 2 kinds
	edits, kinds := 0, map[string]bool{}
	for _, l := range c.Layout {
		for _, g := range l.Gaps {
			if g != "" {
				edits++
				kinds["gap"] = true
			}
		}
		if l.Comment != "" {
			edits++
			kinds["comment"] = true
		}
		if len(l.Before) > 0 {
			edits++
			kinds["lines"] = true
		}
		if l.Trail != "" {
			edits++
			kinds["trail"] = true
		}
		if l.Indent != "" && l.Indent != "\t" {
			edits++
			kinds["indent"] = true
		}
	}
	if c.EOL != "\n" {
		edits++
		kinds["eol"] = true
	}
	v.NonTrivial = edits >= 3 && len(kinds) >= 2 && len(r0.Out) > 0
	v.Class = fmt.Sprintf("eol=%q,corpus=%v", c.EOL, c.Corpus != "")
	v.Sample = map[string]any{"relayout": string(head([]byte(re), 600))}
	return v
}

var commentTexts = []string{"; comment", ";", "# hash", ";;; ---", "; MOV AX,1", "; \"quoted\" text, with: commas [and] brackets", "#[BITS 32]", "; tab\there", "; 日本語のコメント", "; EQU GLOBAL DB 0x00", ";'", "; trailing spaces   "}

func genBlank(t *rapid.T, label string, min int) string {
	n := rapid.IntRange(min, 3).Draw(t, label)
	var sb strings.Builder
	for i := 0; i < n; i++ {
		if rapid.IntRange(0, 3).Draw(t, label+"_tab") == 0 {
			sb.WriteString("\t")
		} else {
			sb.WriteString(" ")
		}
	}
	return sb.String()
}

func genLayout(t *rapid.T, lines []LLine) []LineLayout {
	out := make([]LineLayout, len(lines))
	for i, l := range lines {
		var lay LineLayout
		// the first statement may not be preceded by anything when it is a label? (now allowed: the grammar accepts leading blanks)
		if rapid.IntRange(0, 3).Draw(t, "before") == 0 {
			for k := rapid.IntRange(1, 2).Draw(t, "nbefore"); k > 0; k-- {
				if rapid.Bool().Draw(t, "bk") {
					lay.Before = append(lay.Before, genBlank(t, "bws", 0)+rapid.SampledFrom(commentTexts).Draw(t, "bcom"))
				} else {
					lay.Before = append(lay.Before, genBlank(t, "bblank", 0))
				}
			}
		}
		if l.Kind != "label" {
			lay.Indent = genBlank(t, "indent", 1)
		} else if i > 0 && rapid.IntRange(0, 4).Draw(t, "lindent") == 0 {
			lay.Indent = genBlank(t, "lindentws", 1)
		}
		for j := 1; j < len(l.Toks); j++ {
			if rapid.IntRange(0, 2).Draw(t, "gap") == 0 {
				lay.Gaps = append(lay.Gaps, genBlank(t, "gapws", 1))
			} else {
				lay.Gaps = append(lay.Gaps, "")
			}
		}
		// no blank between a label name and its colon is representable: the colon is part of the token
		if rapid.IntRange(0, 3).Draw(t, "trail") == 0 {
			lay.Trail = genBlank(t, "trailws", 1)
		}
		if rapid.IntRange(0, 3).Draw(t, "comment") == 0 {
			lay.Comment = rapid.SampledFrom(commentTexts).Draw(t, "com")
		}
		out[i] = lay
	}
	return out
}

var propC12 = &Prop[LayoutCase]{
	ID:   "C12",
	Rule: "programs (generated from the C03 generator, or one of the book sources extracted from the repository's tests into /verif/corpus) tokenised into lines of tokens; re-layouts change only what lies between tokens: blanks/tabs in every gap (around commas, brackets, operators, after the mnemonic, around EQU), indentation, trailing blanks, ; and # comments after any line or on own lines (with quotes, commas, brackets, Japanese text), blank lines, LF / CRLF / CR line endings, final line break present or absent; oracle: same parse acceptance and byte-identical output as the canonical (minimal) layout, for one case in forty also through the gosk binary (most of those with a Japanese comment of 0.6 .. 70 KiB, and with UTF-8 string data at the end); non-trivial = at least 3 layout edits of at least 2 kinds; distinct by re-laid-out text",
	Gen: func(t *rapid.T) LayoutCase {
		loadCorpus()
		var c LayoutCase
		var lines []LLine
		if len(corpusNames) > 0 && rapid.IntRange(0, 3).Draw(t, "corpus") == 0 {
			c.Corpus = rapid.SampledFrom(corpusNames).Draw(t, "cfile")
			lines = corpusLines[c.Corpus]
		} else if rapid.IntRange(0, 3).Draw(t, "wcoff") == 0 {
			// WCOFF programs bring GLOBAL/EXTERN lists and more bracket directives
			cc := genCoffCase(t)
			lines = tokenizeSource(cc.source(true))
			c.Lines = lines
		} else {
			p := genLabelProg(t, rapid.SampledFrom([]int{0, 16, 32}).Draw(t, "mode"), rapid.SampledFrom(orgSet).Draw(t, "org"), true)
			lines = tokenizeSource(p.Source())
			c.Lines = lines
		}
		c.Layout = genLayout(t, lines)
		c.EOL = rapid.SampledFrom([]string{"\n", "\n", "\r\n", "\r"}).Draw(t, "eol")
		c.FinalNL = rapid.Bool().Draw(t, "finalnl")
		if rapid.IntRange(0, 3).Draw(t, "tail") == 0 {
			c.Tail = []string{rapid.SampledFrom(commentTexts).Draw(t, "tailc")}
		}
		// one case in forty goes through the binary as well (0.2 s per process), half of them with a very long comment
		if rapid.IntRange(0, 39).Draw(t, "cli") == 17 {
			c.CLI = true
			c.Big = rapid.SampledFrom([]int{0, 600, 1100, 2100, 4200, 8300, 70000}).Draw(t, "bigcomment")
		}
		return c
	},
	Check: checkC12,
}

func TestC12(t *testing.T) { Run(t, propC12) }
