package props

import (
	"bytes"
	"encoding/binary"
	"fmt"
	"strings"
	"testing"

	"github.com/HobbyOSs/gosk/verifharness/asm"
	"github.com/HobbyOSs/gosk/verifharness/sem"
	"github.com/HobbyOSs/gosk/verifharness/x86asm"
	"pgregory.net/rapid"
)

// BranchCase: one relative branch (or far jump) in a micro-program.
type BranchCase struct {
	Mode  int    `json:"mode"`
	Org   int64  `json:"org"`
	Mn    string `json:"mn"`
	Kind  string `json:"kind"` // fwd | bwd | num | far | chain | dollar ($+Rel as the target)
	Rel   int64  `json:"rel,omitempty"`
	Widen bool   `json:"widen,omitempty"` // a Jcc over 200 reserved bytes in front: the program needs a second assembly round
	// Tail32: the program (written without any directive, i.e. in the default 16-bit mode) ends with "[BITS 32] / NOP":
	// a later assembly round must start again in the default mode
	Tail32   bool  `json:"tail32,omitempty"`
	Filler   int   `json:"filler"` // bytes between branch and target (fwd: after the branch; bwd: between target and branch)
	Pad      int   `json:"pad"`    // NOPs before everything
	Trailing bool  `json:"trailing"`
	Target   int64 `json:"target,omitempty"` // num
	Seg      int64 `json:"seg,omitempty"`    // far
	Off      int64 `json:"off,omitempty"`
	Dword    bool  `json:"dword,omitempty"`
	// chain: several forward branches in a row whose spans nest; Gaps[i] bytes are reserved before target i
	Chain []string `json:"chain,omitempty"` // mnemonics
	Gaps  []int    `json:"gaps,omitempty"`
}

func branchMnemonics() []string { return append([]string{"JMP", "CALL"}, jccSet...) }

func (c BranchCase) source() (string, []byte) {
	var sb strings.Builder
	if c.Org >= 0 {
		fmt.Fprintf(&sb, "\tORG 0x%x\n", c.Org)
	}
	sb.WriteString(sem.Header(c.Mode))
	for i := 0; i < c.Pad; i++ {
		sb.WriteString("\tNOP\n")
	}
	if c.Widen {
		sb.WriteString(widenPrefix)
	}
	fill := func() {
		if c.Filler > 0 {
			fmt.Fprintf(&sb, "\tRESB %d\n", c.Filler)
		}
	}
	mA, mB, mT := markerText(1), markerText(2), markerText(3)
	switch c.Kind {
	case "fwd":
		fmt.Fprintf(&sb, "\t%s\n\t%s qtarget\n", mA, c.Mn)
		fill()
		fmt.Fprintf(&sb, "qtarget:\n\t%s\n", mB)
	case "bwd":
		fmt.Fprintf(&sb, "qtarget:\n\t%s\n", mB)
		fill()
		fmt.Fprintf(&sb, "\t%s\n\t%s qtarget\n", mA, c.Mn)
	case "chain":
		for i, mn := range c.Chain {
			fmt.Fprintf(&sb, "\t%s\n\t%s qt%d\n", markerText(10+i), mn, i)
		}
		for i := range c.Chain {
			if c.Gaps[i] > 0 {
				fmt.Fprintf(&sb, "\tRESB %d\n", c.Gaps[i])
			}
			fmt.Fprintf(&sb, "qt%d:\n\t%s\n", i, markerText(40+i))
		}
	case "stair":
		// Filler forward JMPs as a staircase: the span of branch k holds the instruction of branch k+1 and is exactly
		// 127 bytes while that one is short, so each assembly round widens exactly one more branch
		n := c.Filler
		sb.WriteString("\tJMP qs1\n\tRESB 98\n")
		for k := 1; k <= n; k++ {
			if k < n {
				fmt.Fprintf(&sb, "\tJMP qs%d\n\tRESB 27\nqs%d:\n\tRESB 71\n", k+1, k)
			} else {
				fmt.Fprintf(&sb, "\tRESB 30\nqs%d:\n\tHLT\n", k)
			}
		}
		return sb.String(), nil
	case "num":
		fmt.Fprintf(&sb, "\t%s\n\t%s 0x%x\n", mA, c.Mn, c.Target)
	case "dollar":
		switch {
		case c.Rel == 0:
			fmt.Fprintf(&sb, "\t%s\n\t%s $\n", mA, c.Mn)
		case c.Rel < 0:
			fmt.Fprintf(&sb, "\t%s\n\t%s $-%d\n", mA, c.Mn, -c.Rel)
		default:
			fmt.Fprintf(&sb, "\t%s\n\t%s $+%d\n", mA, c.Mn, c.Rel)
		}
	case "far":
		dw := ""
		if c.Dword {
			dw = "DWORD "
		}
		fmt.Fprintf(&sb, "\t%s\n\tJMP %s%d:0x%x\n", mA, dw, c.Seg, c.Off)
	}
	if c.Trailing {
		fmt.Fprintf(&sb, "\tNOP\nqafter:\n\t%s\n\tDD qafter\n", mT)
	}
	if c.Tail32 && c.Mode == 0 {
		sb.WriteString("[BITS 32]\n\tNOP\n")
	}
	return sb.String(), nil
}

func distBucket(d int64) string {
	a := d
	if a < 0 {
		a = -a
	}
	switch {
	case a <= 100:
		return "near0"
	case a <= 125:
		return "lt126"
	case a <= 131:
		return "rel8-boundary"
	case a <= 200:
		return "gt131"
	case a <= 32700:
		return "mid"
	default:
		return "rel16-boundary"
	}
}

func checkC04(c BranchCase) Verdict {
	src, _ := c.source()
	mode := sem.ModeOf(c.Mode)
	v := Verdict{Key: src, Class: fmt.Sprintf("%s|%d", c.Kind, mode)}
	if c.Widen {
		v.Class += "|widen"
	}
	if c.Tail32 && c.Mode == 0 {
		v.Class += "|tail32"
	}
	hdr := ""
	if c.Org >= 0 {
		hdr = fmt.Sprintf("\tORG 0x%x\n", c.Org)
	}
	hdr += sem.Header(c.Mode)
	if c.Tail32 && c.Mode == 0 {
		hdr += "[BITS 32]\n"
	}
	r := asm.Assemble(src)
	base := asm.Baseline(hdr)
	if asm.Diagnosed(r, base) {
		v.Skip = "diagnosed: " + asm.DiagClass(r, base)
		return v
	}
	out := r.Out
	org := c.Org
	if org < 0 {
		org = 0
	}
	find := func(ser int) (int, bool) {
		mb := markerBytes(ser)
		if bytes.Count(out, mb) != 1 {
			return 0, false
		}
		return bytes.Index(out, mb), true
	}
	fail := func(kind, f string, a ...any) Verdict {
		v.Fail = fmt.Sprintf(f, a...) + "\n--- source ---\n" + src + fmt.Sprintf("--- output (%d bytes) ---\n% x", len(out), head(out, 48))
		v.Sig = fmt.Sprintf("C04|%s|kind=%s|mode=%d|mn=%s", kind, c.Kind, mode, c.Mn)
		return v
	}
	if c.Kind == "stair" {
		// walk the statements: every JMP must land on the true offset of its label
		n := c.Filler
		type jmp struct{ at, length, target int }
		var jmps []jmp
		labelAt := map[int]int{}
		p := 0
		dec := func() bool {
			if p >= len(out) {
				return false
			}
			inst, err := x86asm.Decode(out[p:], mode)
			rel, ok := inst.Args[0].(x86asm.Rel)
			if err != nil || inst.Op != x86asm.JMP || !ok {
				return false
			}
			jmps = append(jmps, jmp{p, inst.Len, p + inst.Len + int(rel)})
			p += inst.Len
			return true
		}
		if !dec() {
			return fail("nodecode", "staircase of %d: the first JMP does not decode", n)
		}
		p += 98
		for k := 1; k <= n; k++ {
			if k < n {
				if !dec() {
					return fail("nodecode", "staircase of %d: JMP %d does not decode at offset %d", n, k+1, p)
				}
				p += 27
				labelAt[k] = p
				p += 71
			} else {
				p += 30
				labelAt[k] = p
				p++
			}
		}
		if p != len(out) {
			return fail("filler", "staircase of %d: the statements add up to %d bytes, the output has %d", n, p, len(out))
		}
		for i, j := range jmps {
			if j.target != labelAt[i+1] {
				vv := fail("target", "staircase of %d branches: JMP number %d (at %#x, %d bytes) lands on %#x, its label is at %#x", n, i+1, j.at, j.length, j.target, labelAt[i+1])
				vv.Sig += "|stair"
				return vv
			}
		}
		v.NonTrivial = true
		v.Class += "|stair"
		return v
	}
	if c.Kind == "chain" {
		end := 0
		for i, mn := range c.Chain {
			ob, ok1 := find(10 + i)
			ot, ok2 := find(40 + i)
			if !ok1 || !ok2 {
				return fail("marker", "chain marker %d not found exactly once", i)
			}
			at := ob + 6
			inst, err := x86asm.Decode(out[at:], mode)
			if err != nil || inst.Op == 0 {
				return fail("nodecode", "chain branch %d does not decode: %v", i, err)
			}
			if sem.CanonOp(inst.Op.String()) != sem.CanonOp(mn) {
				return fail("cond", "chain branch %d: wrote %s, decodes as %q", i, mn, x86asm.IntelSyntax(inst, 0, nil))
			}
			rel, isRel := inst.Args[0].(x86asm.Rel)
			if !isRel {
				return fail("form", "chain branch %d decodes without a displacement", i)
			}
			got := org + int64(at) + int64(inst.Len) + int64(rel)
			want := org + int64(ot)
			if inst.DataSize == 16 {
				got, want = got&0xffff, want&0xffff
			}
			if got != want {
				vv := fail("target", "branch %d of the chain (%s at %#x, %d bytes) transfers to %#x, its target is %#x", i, mn, org+int64(at), inst.Len, got, want)
				vv.Sig += "|chain"
				return vv
			}
			end = ot + 6
		}
		v.NonTrivial = true
		v.Class += "|chain"
		v.Sample = map[string]any{"source": src}
		return checkTrailing(c, v, out, org, end, fail)
	}
	oa, ok := find(1)
	if !ok {
		return fail("marker", "marker before the branch not found exactly once")
	}
	at := oa + 6
	inst, err := x86asm.Decode(out[at:], mode)
	if err != nil || inst.Op == 0 {
		return fail("nodecode", "branch bytes % x do not decode: %v", head(out[at:], 8), err)
	}
	if c.Kind == "far" {
		st := sem.Stmt{Mn: "JMP", Ops: []sem.Operand{{Kind: sem.KFar, Seg: c.Seg, Imm: c.Off, Size: map[bool]string{true: "DWORD", false: ""}[c.Dword]}}}
		if m := sem.CompareInst(st, mode, inst); m != nil {
			return fail("far:"+m.Kind, "far jump %d:%#x decodes as %q — %s", c.Seg, c.Off, x86asm.IntelSyntax(inst, 0, nil), m)
		}
		tail := 0
		if c.Tail32 && c.Mode == 0 {
			tail = 1 // the NOP of the trailing 32-bit group
		}
		if at+inst.Len+tail != len(out) && !c.Trailing {
			return fail("far:length", "far jump followed by %d unexpected bytes", len(out)-at-inst.Len)
		}
		v.NonTrivial = true
		v.Sample = map[string]any{"source": src, "bytes": fmt.Sprintf("% x", out[at:at+inst.Len])}
		return checkTrailing(c, v, out, org, at+inst.Len, fail)
	}
	if sem.CanonOp(inst.Op.String()) != sem.CanonOp(c.Mn) {
		return fail("cond", "wrote %s, bytes % x decode as %q", c.Mn, out[at:at+inst.Len], x86asm.IntelSyntax(inst, 0, nil))
	}
	rel, isRel := inst.Args[0].(x86asm.Rel)
	if !isRel {
		return fail("form", "%s decodes without a relative displacement: %q", c.Mn, x86asm.IntelSyntax(inst, 0, nil))
	}
	next := org + int64(at) + int64(inst.Len)
	got := next + int64(rel)
	// the displacement is added at the operand size of the branch
	if inst.DataSize == 16 {
		got &= 0xffff
	} else {
		got &= 0xffffffff
	}
	var want int64
	switch c.Kind {
	case "num":
		want = c.Target
	case "dollar":
		// $ is the address of the statement it is written in
		want = org + int64(at) + c.Rel
		if mode == 32 {
			want &= 0xffffffff
		}
	default:
		ob, ok := find(2)
		if !ok {
			return fail("marker", "marker at the target not found exactly once")
		}
		want = org + int64(ob)
		// filler integrity: the bytes between branch and target are exactly the reserved zeros
		if c.Kind == "fwd" {
			lo, hi := at+inst.Len, ob
			if hi-lo != c.Filler {
				return fail("filler", "%d bytes lie between the branch and its target, %d were reserved", hi-lo, c.Filler)
			}
		} else {
			lo, hi := ob+6, oa
			if hi-lo != c.Filler {
				return fail("filler", "%d bytes lie between the target and the branch, %d were reserved", hi-lo, c.Filler)
			}
		}
	}
	if inst.DataSize == 16 {
		want &= 0xffff
	}
	if got != want {
		d := got - want
		ds := "other"
		if d >= -4 && d <= 4 {
			ds = fmt.Sprintf("%+d", d)
		}
		vv := fail("target", "%s at %#x (%d bytes: % x) transfers to %#x, the target is %#x", c.Mn, org+int64(at), inst.Len, out[at:at+inst.Len], got, want)
		vv.Sig += "|off=" + ds
		return vv
	}
	if mode == 32 && inst.DataSize == 16 {
		return fail("opsize", "%s in 32-bit mode encoded with a 16-bit operand size (EIP would be truncated): % x", c.Mn, out[at:at+inst.Len])
	}
	v.NonTrivial = true
	v.Class += "|" + distBucket(int64(rel))
	v.Sample = map[string]any{"source": src, "branch": fmt.Sprintf("% x", out[at:at+inst.Len]), "rel": int64(rel)}
	end := at + inst.Len
	if c.Kind == "fwd" {
		ob, _ := find(2)
		end = ob + 6
	}
	return checkTrailing(c, v, out, org, end, fail)
}

func head(b []byte, n int) []byte {
	if len(b) > n {
		return b[:n]
	}
	return b
}

func checkTrailing(c BranchCase, v Verdict, out []byte, org int64, end int, fail func(kind, f string, a ...any) Verdict) Verdict {
	if !c.Trailing {
		return v
	}
	mt := markerBytes(3)
	if bytes.Count(out, mt) != 1 {
		return fail("marker", "marker after the trailing label not found exactly once")
	}
	ot := bytes.Index(out, mt)
	if ot+10 > len(out) {
		return fail("trailing", "output ends before the trailing DD")
	}
	got := int64(binary.LittleEndian.Uint32(out[ot+6:]))
	if got != (org+int64(ot))&0xffffffff {
		return fail("trailing", "label after the branch has value %#x, it really is at %#x", got, org+int64(ot))
	}
	return v
}

var c04Fillers = func() []int {
	var f []int
	for i := 0; i <= 140; i++ {
		f = append(f, i)
	}
	for _, x := range []int{32760, 32763, 32764, 32765, 32766, 32767, 32768, 32769, 32770, 32772} {
		f = append(f, x)
	}
	return f
}()

var propC04 = &Prop[BranchCase]{
	ID:   "C04",
	Rule: "micro-programs 'pad; Jxx L; RESB d; L:' and the backward mirror for the 31 jump mnemonics and CALL, every d in 0..140 and around 32768, numeric targets, staircases of 5..800 forward JMPs that need one assembly round per branch, targets written relative to $ ($, $+k, $-k), far JMP seg:off with boundary values, ORG from the quantifier's set, BITS none/16/32, with and without a further label after the branch, with and without an earlier out-of-reach Jcc that forces a second assembly round, default-mode programs also with a trailing [BITS 32] group; oracle: decoded (next + rel) = origin + marker offset of the target, decoded condition = canonical condition of the mnemonic, filler intact; non-trivial = accepted; distinct by source text",
	Gen: func(t *rapid.T) BranchCase {
		c := BranchCase{
			Mode:     rapid.SampledFrom([]int{0, 16, 32}).Draw(t, "mode"),
			Org:      rapid.SampledFrom(orgSet).Draw(t, "org"),
			Mn:       rapid.SampledFrom(branchMnemonics()).Draw(t, "mn"),
			Kind:     rapid.SampledFrom([]string{"fwd", "fwd", "bwd", "bwd", "num", "far", "chain", "chain", "dollar"}).Draw(t, "kind"),
			Pad:      rapid.IntRange(0, 3).Draw(t, "pad"),
			Trailing: rapid.Bool().Draw(t, "trailing"),
		}
		switch rapid.IntRange(0, 3).Draw(t, "fclass") {
		case 0:
			c.Filler = rapid.IntRange(110, 140).Draw(t, "filler")
		case 1:
			c.Filler = rapid.SampledFrom(c04Fillers[141:]).Draw(t, "filler")
		case 2:
			// beyond 64 KiB: every byte of a rel32 matters (32-bit mode; in 16-bit mode the address wraps)
			c.Filler = rapid.SampledFrom([]int{65530, 65534, 65535, 65536, 65540, 70000, 300000, 0x1000000 + 5}).Draw(t, "filler")
			if c.Mode != 32 {
				c.Filler = rapid.IntRange(0, 300).Draw(t, "filler16")
			}
		default:
			c.Filler = rapid.IntRange(0, 300).Draw(t, "filler")
		}
		if c.Kind == "chain" {
			k := rapid.IntRange(2, 7).Draw(t, "chainlen")
			for i := 0; i < k; i++ {
				c.Chain = append(c.Chain, rapid.SampledFrom(branchMnemonics()).Draw(t, "chmn"))
				if i == 0 {
					c.Gaps = append(c.Gaps, rapid.IntRange(100, 130).Draw(t, "gap0"))
				} else {
					c.Gaps = append(c.Gaps, rapid.IntRange(0, 12).Draw(t, "gapn"))
				}
			}
		}
		if c.Kind == "num" {
			c.Target = rapid.SampledFrom([]int64{0, 5, 0x7c00, 0x7c10, 0x7c80, 0x7c81, 0x7c82, 0x7c83, 0x8000, 0xc200, 0xfffe, 0x1234}).Draw(t, "target")
		}
		if c.Kind == "dollar" {
			c.Rel = rapid.SampledFrom([]int64{0, 1, 2, 3, 5, 6, -1, -2, -6, 126, 127, 128, 129, 130, 131, -125, -126, -127, -128, -129, 200, -200, 0x1000, -0x1000}).Draw(t, "rel")
		}
		c.Widen = rapid.IntRange(0, 3).Draw(t, "widen") == 0
		c.Tail32 = c.Mode == 0 && rapid.IntRange(0, 2).Draw(t, "tail32") == 0
		if c.Kind == "far" {
			c.Mn = "JMP"
			c.Seg = rapid.SampledFrom([]int64{0, 8, 16, 0x28, 0x7fff, 0xffff}).Draw(t, "seg")
			c.Off = rapid.SampledFrom([]int64{0, 0x1b, 0x7fff, 0xffff, 0x10000, 0x280000, 0x7fffffff}).Draw(t, "off")
			c.Dword = rapid.Bool().Draw(t, "dword")
		}
		return c
	},
	Check: checkC04,
	Enum: func(tier string, yield func(BranchCase)) bool {
		fillers := c04Fillers
		orgs := []int64{-1, 0x7c00, 0xfff0}
		if tier == "quick" {
			fillers = []int{0, 1, 2, 122, 123, 124, 125, 126, 127, 128, 129, 130, 131, 140}
			orgs = []int64{-1, 0x7c00}
		}
		for _, mn := range branchMnemonics() {
			for _, mode := range []int{16, 32} {
				for _, kind := range []string{"fwd", "bwd"} {
					for _, f := range fillers {
						if tier != "quick" && f > 200 && mn != "JMP" && mn != "CALL" && mn != "JE" && mn != "JNBE" {
							continue
						}
						for oi, org := range orgs {
							if f > 200 && org == 0xfff0 {
								continue
							}
							yield(BranchCase{Mode: mode, Org: org, Mn: mn, Kind: kind, Filler: f, Trailing: (f+oi)%2 == 0})
						}
					}
				}
				for _, tg := range []int64{0, 0x7c00, 0x7c7f, 0x7c80, 0x7c81, 0x7c82, 0x7c83, 0x7c84, 0xc200} {
					yield(BranchCase{Mode: mode, Org: 0x7c00, Mn: mn, Kind: "num", Target: tg, Trailing: true})
				}
			}
		}
		// nested chains around the rel8 boundary: widening one branch must re-size the ones enclosing it
		for _, mode := range []int{16, 32} {
			for k := 2; k <= 4; k++ {
				for g0 := 108; g0 <= 128; g0++ {
					for _, gn := range []int{0, 1, 2, 6} {
						c := BranchCase{Mode: mode, Org: -1, Kind: "chain", Trailing: true}
						for i := 0; i < k; i++ {
							c.Chain = append(c.Chain, []string{"JMP", "JE", "JNZ", "JC"}[(i+g0)%4])
							if i == 0 {
								c.Gaps = append(c.Gaps, g0)
							} else {
								c.Gaps = append(c.Gaps, gn)
							}
						}
						yield(c)
					}
				}
			}
		}
		// cascades: with all branches short, only the innermost-last one is out of reach; widening it pushes the
		// next one out of reach, and so on: one more assembly round per branch
		maxk := 12
		if tier != "quick" {
			maxk = 20
		}
		for _, mode := range []int{16, 32} {
			for _, mn := range []string{"JMP", "JE", "CALL"} {
				for _, gap := range []int{3, 4} {
					for k := 2; k <= maxk; k++ {
						for d := -2; d <= 2; d++ {
							g0 := 128 - (k-1)*(6+gap) + d
							if g0 < 0 {
								continue
							}
							c := BranchCase{Mode: mode, Org: 0x7c00, Kind: "chain", Trailing: true}
							for i := 0; i < k; i++ {
								c.Chain = append(c.Chain, mn)
								if i == 0 {
									c.Gaps = append(c.Gaps, g0)
								} else {
									c.Gaps = append(c.Gaps, gap)
								}
							}
							yield(c)
						}
					}
				}
			}
		}
		// staircases: one more assembly round per branch, on programs of growing size (the largest takes seconds)
		stairs := []int{5, 40}
		if tier != "quick" {
			stairs = []int{5, 40, 200, 800}
		}
		for _, n := range stairs {
			yield(BranchCase{Mode: 16, Org: -1, Kind: "stair", Mn: "JMP", Filler: n})
		}
		// 32-bit mode, distances beyond 64 KiB and 16 MiB (all four displacement bytes are significant)
		for _, mn := range []string{"JMP", "CALL", "JE", "JNBE"} {
			for _, kind := range []string{"fwd", "bwd"} {
				for _, f := range []int{65530, 65535, 65536, 65541, 70000, 0x1000003} {
					if tier == "quick" && f > 70000 {
						continue
					}
					yield(BranchCase{Mode: 32, Org: -1, Mn: mn, Kind: kind, Filler: f, Trailing: true})
				}
			}
		}
		for _, mode := range []int{16, 32} {
			for _, seg := range []int64{0, 8, 16, 0x7fff, 0xffff} {
				for _, off := range []int64{0, 0x1b, 0x7fff, 0x8000, 0xffff, 0x10000, 0x280000, 0x7fffffff} {
					for _, dw := range []bool{false, true} {
						yield(BranchCase{Mode: mode, Org: -1, Mn: "JMP", Kind: "far", Seg: seg, Off: off, Dword: dw})
					}
				}
			}
		}
		return tier == "thorough"
	},
}

func TestC04(t *testing.T) { Run(t, propC04) }
