package props

import (
	"bytes"
	"fmt"
	"os"
	"regexp"
	"sort"
	"strings"
	"sync"
	"testing"

	"github.com/HobbyOSs/gosk/verifharness/asm"
	"github.com/HobbyOSs/gosk/verifharness/coff"
	"github.com/HobbyOSs/gosk/verifharness/sem"
	"pgregory.net/rapid"
)

// ---------------------------------------------------------------------------
// C15 — symbol names are arbitrary.

var (
	kwOnce   sync.Once
	keywords []string
)

// safeName: no reserved word, opcode, register or type/jump keyword is a
// prefix of n (both grammars test those as prefixes), and n is a plain
// identifier over [A-Za-z0-9_] not starting with a digit.
func safeName(n string) bool {
	kwOnce.Do(func() {
		keywords = append(keywords, GrammarOpcodes()...)
		keywords = append(keywords, "EQU", "GLOBAL", "EXTERN", "BYTE", "WORD", "DWORD", "SHORT", "NEAR", "FAR", "PTR")
		keywords = append(keywords, sem.Regs8...)
		keywords = append(keywords, sem.Regs16...)
		keywords = append(keywords, sem.Regs32...)
		keywords = append(keywords, sem.Sregs...)
		for _, p := range []string{"CR", "DR", "TR", "MM", "XMM", "YMM", "RAX", "RBX", "RCX", "RDX", "RSI", "RDI", "RSP", "RBP"} {
			keywords = append(keywords, p)
		}
		// every quoted upper-case keyword of the operand grammar (register names of all widths, type and jump keywords)
		if b, err := os.ReadFile(repoDir() + "/pkg/ng_operand/operand_grammar.peg"); err == nil {
			for _, m := range regexp.MustCompile(`"([A-Z][A-Z0-9]+)"`).FindAllStringSubmatch(string(b), -1) {
				keywords = append(keywords, m[1])
			}
		}
	})
	if n == "" || len(n) > 40 || (n[0] >= '0' && n[0] <= '9') {
		return false
	}
	for _, c := range n {
		if !(c == '_' || (c >= '0' && c <= '9') || (c >= 'a' && c <= 'z') || (c >= 'A' && c <= 'Z')) {
			return false
		}
	}
	for _, k := range keywords {
		if strings.HasPrefix(n, k) {
			return false
		}
	}
	return true
}

var adversarial = []string{"a", "aa", "a_", "A", "aA", "Aa", "a0", "_", "__", "_a", "_A", "a__", "aaa", "aaaaaaaa", "aaaaaaaaa", "x", "X", "xX", "Xx", "x_", "z9", "Z9", "l", "I", "O0", "o0",
	// fragments of keywords that can stand next to a name (BYTE/WORD/DWORD/SHORT/NEAR/FAR, EQU, GLOBAL, BITS)
	"E", "T", "Y", "YT", "TE", "W", "RD", "WO", "O", "R", "D", "B", "H", "HO", "EA", "AR", "QU", "U", "G", "TS", "S"}

// genRenaming draws an injective renaming of names into safe identifiers,
// biased towards adversarial families (prefixes/suffixes of one another, case twins).
func genRenaming(t *rapid.T, names []string) map[string]string {
	ren := map[string]string{}
	taken := map[string]bool{}
	var chosen []string
	for i, n := range names {
		for try := 0; ; try++ {
			var cand string
			switch k := rapid.IntRange(0, 6).Draw(t, fmt.Sprintf("rk%d_%d", i, try)); {
			case k <= 1:
				cand = rapid.SampledFrom(adversarial).Draw(t, "adv")
			case k == 2 && len(chosen) > 0: // extend an existing name (prefix family)
				cand = chosen[rapid.IntRange(0, len(chosen)-1).Draw(t, "ext")] + rapid.StringMatching(`[a-zA-Z0-9_]{1,2}`).Draw(t, "exts")
			case k == 3 && len(chosen) > 0: // prepend (suffix family)
				cand = rapid.StringMatching(`[a-z_]{1,2}`).Draw(t, "pre") + chosen[rapid.IntRange(0, len(chosen)-1).Draw(t, "pres")]
			case k == 4 && len(chosen) > 0: // case twin
				b := []byte(chosen[rapid.IntRange(0, len(chosen)-1).Draw(t, "twin")])
				j := rapid.IntRange(0, len(b)-1).Draw(t, "twinpos")
				switch {
				case b[j] >= 'a' && b[j] <= 'z':
					b[j] -= 32
				case b[j] >= 'A' && b[j] <= 'Z':
					b[j] += 32
				}
				cand = string(b)
			case k == 5: // long
				cand = rapid.StringMatching(`[a-z_][a-zA-Z0-9_]{7,39}`).Draw(t, "long")
			default:
				cand = rapid.StringMatching(`[a-zA-Z_][a-zA-Z0-9_]{0,9}`).Draw(t, "any")
			}
			if safeName(cand) && !taken[cand] {
				taken[cand] = true
				ren[n] = cand
				chosen = append(chosen, cand)
				break
			}
			if try > 20 {
				cand = fmt.Sprintf("q%d_%s", i, "fallback")
				taken[cand] = true
				ren[n] = cand
				chosen = append(chosen, cand)
				break
			}
		}
	}
	return ren
}

// renameSource replaces whole identifier tokens in one pass (so a -> b, b -> a
// swaps correctly). Double-quoted strings and number tokens are left alone.
func renameSource(src string, ren map[string]string) string {
	isStart := func(c byte) bool {
		return c == '_' || c == '$' || c == '.' || (c >= 'a' && c <= 'z') || (c >= 'A' && c <= 'Z')
	}
	isCont := func(c byte) bool { return isStart(c) || (c >= '0' && c <= '9') }
	var sb strings.Builder
	for i := 0; i < len(src); {
		c := src[i]
		switch {
		case c == '"':
			j := i + 1
			for j < len(src) && src[j] != '"' && src[j] != '\n' {
				j++
			}
			if j < len(src) {
				j++
			}
			sb.WriteString(src[i:j])
			i = j
		case c >= '0' && c <= '9':
			j := i
			for j < len(src) && isCont(src[j]) {
				j++
			}
			sb.WriteString(src[i:j])
			i = j
		case isStart(c):
			j := i
			for j < len(src) && isCont(src[j]) {
				j++
			}
			tok := src[i:j]
			if r, ok := ren[tok]; ok {
				tok = r
			}
			sb.WriteString(tok)
			i = j
		default:
			sb.WriteByte(c)
			i++
		}
	}
	return sb.String()
}

type RenameCase struct {
	Kind string            `json:"kind"` // flat | coff
	P    *Prog             `json:"p,omitempty"`
	C    *CoffCase         `json:"c,omitempty"`
	Ren  map[string]string `json:"ren"`
}

func interesting(ren map[string]string) bool {
	var vs []string
	for _, v := range ren {
		vs = append(vs, v)
	}
	for i, a := range vs {
		for j, b := range vs {
			if i != j && (strings.HasPrefix(b, a) || strings.HasSuffix(b, a) || (strings.EqualFold(a, b) && a != b)) {
				return true
			}
		}
	}
	return false
}

func checkC15(c RenameCase) Verdict {
	var src string
	var hdr string
	if c.Kind == "flat" {
		src, hdr = c.P.Source(), c.P.BaselineSource()
	} else {
		src = c.C.source(true)
		bc := *c.C
		bc.Stmts, bc.Labels, bc.Before, bc.After, bc.Externs, bc.EndLabels = nil, nil, nil, nil, nil, nil
		bc.SectionAt = 0 // (the directive would otherwise sit behind statements the baseline does not have)
		hdr = bc.source(true)
	}
	src2 := renameSource(src, c.Ren)
	v := Verdict{Key: src + "\x00" + src2, Class: c.Kind}
	base := asm.Baseline(hdr)
	filter := func(r *asm.Result) []string {
		var ex []string
		for _, d := range asm.ExtraDiags(r, base) {
			if strings.Contains(d, "declared but not found in symbol table") || (strings.Contains(d, truncWarn) && strings.Contains(d, "truncating")) {
				continue
			}
			ex = append(ex, d)
		}
		return ex
	}
	r1, r2 := asm.Assemble(src), asm.Assemble(src2)
	e1, e2 := filter(r1), filter(r2)
	d1, d2 := r1.Failed() || len(e1) > 0, r2.Failed() || len(e2) > 0
	if d1 && d2 {
		v.Skip = "diagnosed"
		if len(e1) > 0 {
			v.Skip = "diagnosed: " + asm.DiagClass(&asm.Result{Diags: e1}, nil)
		}
		return v
	}
	fail := func(kind, f string, a ...any) Verdict {
		var rs []string
		for k, val := range c.Ren {
			rs = append(rs, k+"->"+val)
		}
		sort.Strings(rs)
		v.Fail = fmt.Sprintf(f, a...) + fmt.Sprintf("\nrenaming: %s\n--- original ---\n%s--- renamed ---\n%s", strings.Join(rs, " "), src, src2)
		v.Sig = "C15|" + c.Kind + "|" + kind
		return v
	}
	if d1 != d2 {
		which, diags, pe := "renamed", e2, r2.ParseErr
		if d1 {
			which, diags, pe = "original", e1, r1.ParseErr
		}
		return fail("acceptance", "only the %s program is rejected/diagnosed: %v %s", which, diags, pe)
	}
	if c.Kind == "flat" {
		if !bytes.Equal(r1.Out, r2.Out) {
			at := 0
			for at < len(r1.Out) && at < len(r2.Out) && r1.Out[at] == r2.Out[at] {
				at++
			}
			return fail("bytes", "flat binary changes with the names: offset %d, % x vs % x (lengths %d / %d)", at, clip(r1.Out, at), clip(r2.Out, at), len(r1.Out), len(r2.Out))
		}
	} else {
		f1, err1 := coff.Parse(r1.Out)
		f2, err2 := coff.Parse(r2.Out)
		if err1 != nil || err2 != nil {
			v.Skip = "structurally invalid object (C08 decides)"
			return v
		}
		if f1.Header.NumberOfSymbols != f2.Header.NumberOfSymbols || len(f1.Symbols) != len(f2.Symbols) {
			return fail("symcount", "symbol count changes with the names: %d vs %d", len(f1.Symbols), len(f2.Symbols))
		}
		if !bytes.Equal(f1.Sections[0].Data, f2.Sections[0].Data) {
			return fail("text", ".text changes with the names")
		}
		for i := range f1.Symbols {
			a, b := f1.Symbols[i], f2.Symbols[i]
			want := a.Name
			if n, ok := c.Ren[a.Name]; ok {
				want = n
			}
			if b.Name != want {
				return fail("symname", "symbol %d: %q became %q, expected %q", i, a.Name, b.Name, want)
			}
			if a.Value != b.Value || a.SectionNumber != b.SectionNumber || a.StorageClass != b.StorageClass || a.Type != b.Type || a.NumAux != b.NumAux {
				return fail("symfield", "symbol %d (%s -> %s): value/section/class/type/aux change with the name: %+v vs %+v", i, a.Name, b.Name, a, b)
			}
		}
	}
	v.NonTrivial = len(c.Ren) >= 2 && interesting(c.Ren)
	v.Sample = map[string]any{"kind": c.Kind, "renaming": c.Ren}
	return v
}

var propC15 = &Prop[RenameCase]{
	ID:   "C15",
	Rule: "programs with labels and EQUs (C03 generator, flat) or labels, GLOBAL and EXTERN names (C08 generator, WCOFF) x injective renamings of every symbol into safe identifiers of length 1..40 (no reserved word/opcode/register prefix), biased to adversarial families: a, aa, a_, A, names extending or ending in one another, case twins; oracle: same acceptance; flat binary byte-identical; WCOFF: same .text, same symbol count, every symbol's value/section/class/type unchanged and its name the renamed one at the same index; non-trivial = at least two names of which one is a prefix, suffix or case variant of another; distinct by the pair of sources",
	Gen: func(t *rapid.T) RenameCase {
		if rapid.IntRange(0, 2).Draw(t, "coff") == 0 {
			c := genCoffCase(t)
			var names []string
			seen := map[string]bool{}
			add := func(n string) {
				if !seen[n] {
					seen[n] = true
					names = append(names, n)
				}
			}
			for _, l := range c.Labels {
				add(l.Name)
			}
			for _, l := range c.EndLabels {
				add(l)
			}
			for _, g := range c.globals() {
				add(g)
			}
			for _, e := range c.Externs {
				add(e)
			}
			return RenameCase{Kind: "coff", C: &c, Ren: genRenaming(t, names)}
		}
		p := genLabelProg(t, rapid.SampledFrom([]int{0, 16, 32}).Draw(t, "mode"), rapid.SampledFrom(orgSet).Draw(t, "org"), true)
		var names []string
		seen := map[string]bool{}
		for _, it := range p.Items {
			if (it.Kind == ItLabel || it.Kind == ItEqu) && !seen[it.Name] {
				seen[it.Name] = true
				names = append(names, it.Name)
			}
		}
		return RenameCase{Kind: "flat", P: &p, Ren: genRenaming(t, names)}
	},
	Check: checkC15,
}

func TestC15(t *testing.T) { Run(t, propC15) }
