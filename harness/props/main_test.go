package props

import "testing"

func TestMain(m *testing.M) { finish(m.Run()) }
