package props

import (
	"bytes"
	"fmt"
	"math/big"
	"strings"
	"testing"

	"github.com/HobbyOSs/gosk/verifharness/asm"
	"pgregory.net/rapid"
)

// ---------------------------------------------------------------------------
// C06 — constant expressions are evaluated arithmetically.

// ENode is an expression tree node. Leaves: Lit (rendered Text), Name (EQU
// name whose definition is Def), Dollar. Inner: Op with L and R. Paren puts
// the node in parentheses (always done where the tree shape requires it).
type ENode struct {
	Op     string `json:"op,omitempty"` // + - * / %
	L      *ENode `json:"l,omitempty"`
	R      *ENode `json:"r,omitempty"`
	Lit    *int64 `json:"lit,omitempty"`
	Text   string `json:"text,omitempty"`
	Name   string `json:"name,omitempty"`
	Def    *ENode `json:"def,omitempty"`
	Dollar bool   `json:"dollar,omitempty"`
	Paren  bool   `json:"paren,omitempty"` // redundant parentheses
	SpL    int    `json:"spl,omitempty"`   // spaces before / after the operator
	SpR    int    `json:"spr,omitempty"`
}

func prec(op string) int {
	switch op {
	case "*", "/", "%":
		return 2
	case "+", "-":
		return 1
	}
	return 3
}

// render writes the expression; parentheses are inserted exactly where the
// tree shape needs them under the usual precedence / left associativity,
// plus where Paren asks for redundant ones.
func (n *ENode) render(parentPrec int, rightSide bool) string {
	var s string
	switch {
	case n.Lit != nil:
		s = n.Text
	case n.Name != "":
		s = n.Name
	case n.Dollar:
		s = "$"
	default:
		p := prec(n.Op)
		s = n.L.render(p, false) + strings.Repeat(" ", n.SpL) + n.Op + strings.Repeat(" ", n.SpR) + n.R.render(p, true)
		need := p < parentPrec || (p == parentPrec && rightSide)
		if need || n.Paren {
			return "(" + s + ")"
		}
		return s
	}
	if n.Paren {
		return "(" + s + ")"
	}
	return s
}

func (n *ENode) Render() string { return n.render(0, false) }

var (
	bigMin = new(big.Int).SetInt64(-1 << 62)
	bigMax = new(big.Int).SetInt64(1 << 62)
)

// eval is the reference evaluator: arbitrary precision, truncating division.
// ok=false: division by zero or an intermediate outside +-2^62 (gosk documents nothing there).
func (n *ENode) eval(dollar int64) (*big.Int, bool) {
	switch {
	case n.Lit != nil:
		return big.NewInt(*n.Lit), true
	case n.Name != "":
		return n.Def.eval(dollar)
	case n.Dollar:
		return big.NewInt(dollar), true
	}
	a, ok := n.L.eval(dollar)
	if !ok {
		return nil, false
	}
	b, ok := n.R.eval(dollar)
	if !ok {
		return nil, false
	}
	r := new(big.Int)
	switch n.Op {
	case "+":
		r.Add(a, b)
	case "-":
		r.Sub(a, b)
	case "*":
		r.Mul(a, b)
	case "/":
		if b.Sign() == 0 {
			return nil, false
		}
		r.Quo(a, b) // truncated toward zero
	case "%":
		if b.Sign() == 0 {
			return nil, false
		}
		r.Rem(a, b) // sign of the dividend
	}
	if r.Cmp(bigMin) < 0 || r.Cmp(bigMax) > 0 {
		return nil, false
	}
	return r, true
}

func (n *ENode) walk(f func(*ENode)) {
	f(n)
	if n.L != nil {
		n.L.walk(f)
	}
	if n.R != nil {
		n.R.walk(f)
	}
}

func (n *ENode) depth() int {
	if n.L == nil {
		return 0
	}
	a, b := n.L.depth(), n.R.depth()
	if b > a {
		a = b
	}
	return a + 1
}

var exprLits = []int64{0, 1, -1, 2, 3, 7, 8, 10, 16, 255, 256, 0x7f, 0x80, 0x7fff, 0x8000, 0xffff, 0x10000, 0x7fffffff, 0xffffffff, -128, -129, 1000}

func genENode(t *rapid.T, depth int, allowDollar bool, equs *[]*ENode, used map[string]bool) *ENode {
	leaf := depth == 0 || rapid.IntRange(0, 9).Draw(t, "leaf") < 2
	if leaf {
		k := rapid.IntRange(0, 11).Draw(t, "leafk")
		if k == 0 && allowDollar {
			return &ENode{Dollar: true}
		}
		if k == 1 && len(*equs) > 0 && rapid.Bool().Draw(t, "reuse") {
			// the same name used again elsewhere in the expression (its value must not depend on earlier uses)
			e := (*equs)[rapid.IntRange(0, len(*equs)-1).Draw(t, "reusei")]
			return &ENode{Name: e.Name, Def: e.Def}
		}
		if k == 1 {
			// an EQU name standing for a (smaller) expression
			def := genENode(t, min(depth, 2), false, equs, used)
			nm := genName(t, "en", used)
			n := &ENode{Name: nm, Def: def}
			*equs = append(*equs, n)
			return n
		}
		var v int64
		if rapid.Bool().Draw(t, "litb") {
			v = rapid.SampledFrom(exprLits).Draw(t, "litv")
		} else {
			v = rapid.Int64Range(-300, 70000).Draw(t, "litu")
		}
		style := rapid.IntRange(0, 3).Draw(t, "lits")
		if style == 3 && v >= 0 {
			// decimal with leading zeros is still decimal (there is no octal notation)
			return &ENode{Lit: &v, Text: fmt.Sprintf("0%d", v)}
		}
		return &ENode{Lit: &v, Text: renderImm(v, style%3)}
	}
	op := rapid.SampledFrom([]string{"+", "-", "*", "/", "%", "+", "-", "*"}).Draw(t, "op")
	n := &ENode{Op: op, SpL: rapid.IntRange(0, 2).Draw(t, "spl"), SpR: rapid.IntRange(0, 2).Draw(t, "spr")}
	n.L = genENode(t, depth-1, allowDollar, equs, used)
	n.R = genENode(t, depth-1, allowDollar, equs, used)
	n.Paren = rapid.IntRange(0, 5).Draw(t, "paren") == 0
	return n
}

func min(a, b int) int {
	if a < b {
		return a
	}
	return b
}

type ExprCase struct {
	Mode int    `json:"mode"`
	Org  int64  `json:"org"`
	Pos  string `json:"pos"` // dd dw db imm32 imm16 disp resb equ
	E    *ENode `json:"e"`
	// Ctx "widen": an out-of-reach Jcc over 200 reserved bytes precedes the statement, so the
	// program is assembled twice and $ differs between the rounds
	Ctx string `json:"ctx,omitempty"`
	// Fwd: the EQU definitions are written outermost first, so every body names constants that are defined
	// further down (they are all defined by the time the statement under test uses them)
	Fwd bool `json:"fwd,omitempty"`
}

func (c *ExprCase) prefix() string {
	if c.Ctx == "widen" {
		return widenPrefix
	}
	return ""
}

func (c *ExprCase) equLines() string {
	var sb strings.Builder
	var defs []*ENode
	c.E.walk(func(n *ENode) {
		if n.Name != "" {
			defs = append(defs, n)
		}
	})
	// definitions must precede uses; nested definitions first
	var emit func(n *ENode)
	done := map[string]bool{}
	emit = func(n *ENode) {
		n.Def.walk(func(m *ENode) {
			if m.Name != "" && !done[m.Name] {
				emit(m)
			}
		})
		if !done[n.Name] {
			done[n.Name] = true
			fmt.Fprintf(&sb, "%s\tEQU\t%s\n", n.Name, n.Def.Render())
		}
	}
	for _, d := range defs {
		emit(d)
	}
	if c.Fwd {
		lines := strings.Split(strings.TrimRight(sb.String(), "\n"), "\n")
		for i, j := 0, len(lines)-1; i < j; i, j = i+1, j-1 {
			lines[i], lines[j] = lines[j], lines[i]
		}
		if len(lines) == 1 && lines[0] == "" {
			return ""
		}
		return strings.Join(lines, "\n") + "\n"
	}
	return sb.String()
}

func (c *ExprCase) header() string {
	s := ""
	if c.Org >= 0 {
		s += fmt.Sprintf("\tORG 0x%x\n", c.Org)
	}
	if c.Mode == 32 {
		s += "[BITS 32]\n"
	} else if c.Mode == 16 {
		s += "[BITS 16]\n"
	}
	return s
}

// stmt renders the statement that uses the expression text x.
func (c *ExprCase) stmt(x string, lit bool, v int64) string {
	switch c.Pos {
	case "dd":
		return "\tDD " + x + "\n"
	case "dw":
		return "\tDW " + x + "\n"
	case "db":
		return "\tDB " + x + ",0x55\n"
	case "imm32":
		return "\tMOV ECX," + x + "\n"
	case "imm16":
		return "\tADD BX," + x + "\n"
	case "disp":
		if lit {
			if v < 0 {
				return fmt.Sprintf("\tMOV EAX,[EBX-%d]\n", -v)
			}
			return fmt.Sprintf("\tMOV EAX,[EBX+%d]\n", v)
		}
		return "\tMOV EAX,[EBX+" + x + "]\n"
	case "resb":
		return "\tRESB " + x + "\n\tDB 0x77\n"
	case "equ":
		// three bytes lie between the definition and the use: $ is the address of the definition
		return "qq\tEQU\t" + x + "\n\tRESB 3\n\tDD qq\n"
	}
	return ""
}

func checkC06(c ExprCase) Verdict {
	org := c.Org
	if org < 0 {
		org = 0
	}
	text := c.E.Render()
	v := Verdict{Key: fmt.Sprintf("%s|%d|%d|%s|%s|%v", c.Pos, c.Mode, c.Org, text, c.Ctx, c.Fwd), Class: c.Pos}
	// the statement under test is the first emitting statement after the optional prefix: $ = origin + prefix length
	skip := 0
	if c.Ctx != "" {
		rp := asm.Assemble(c.header() + c.prefix())
		if asm.Diagnosed(rp, asm.Baseline(c.header())) || len(rp.Out) < 200 {
			v.Skip = "prefix alone diagnosed"
			return v
		}
		skip = len(rp.Out)
		v.Class += "|" + c.Ctx
	}
	val, ok := c.E.eval(org + int64(skip))
	if !ok {
		v.Skip = "division by zero or value beyond 2^62 (outside the documented domain)"
		return v
	}
	iv := val.Int64()
	switch c.Pos {
	case "resb":
		if iv < 0 || iv > 5000 {
			v.Skip = "reservation size outside 0..5000"
			return v
		}
	case "disp":
		if iv < -0x80000000 || iv > 0x7fffffff {
			v.Skip = "displacement beyond 32 bits"
			return v
		}
	}
	src := c.header() + c.equLines() + c.prefix() + c.stmt(text, false, iv)
	lit := fmt.Sprintf("%d", iv)
	srcLit := c.header() + c.prefix() + c.stmt(lit, true, iv)
	r := asm.Assemble(src)
	rl := asm.Assemble(srcLit)
	base := asm.Baseline(c.header())
	dg, _ := diagnosedC05(r, base)
	dl, _ := diagnosedC05(rl, base)
	if dl {
		v.Skip = "literal form diagnosed: " + asm.DiagClass(rl, base)
		return v
	}
	if dg {
		// the literal value is accepted in this position but the expression is not: the
		// property says any constant expression accepted as an operand is replaced by its
		// value; a rejected expression is outside "accepted".
		v.Skip = "expression diagnosed: " + asm.DiagClass(r, base)
		return v
	}
	sig := func(kind string) string {
		ops := map[string]bool{}
		c.E.walk(func(n *ENode) {
			if n.Op != "" {
				ops[n.Op] = true
			}
		})
		var o []string
		for _, k := range []string{"+", "-", "*", "/", "%"} {
			if ops[k] {
				o = append(o, k)
			}
		}
		return fmt.Sprintf("C06|%s|pos=%s|ops=%s", kind, c.Pos, strings.Join(o, ""))
	}
	// (a) reference: data directives emit the low bits of the value
	switch c.Pos {
	case "dd", "dw", "db", "equ":
		w := map[string]int{"dd": 4, "dw": 2, "db": 1, "equ": 4}[c.Pos]
		if len(r.Out) < skip+w {
			v.Fail = fmt.Sprintf("%q emitted %d bytes\n%s", text, len(r.Out)-skip, src)
			v.Sig = sig("short")
			return v
		}
		at := skip
		if c.Pos == "equ" {
			at += 3
		}
		if len(r.Out) < at+w {
			v.Fail = fmt.Sprintf("%q emitted %d bytes\n%s", text, len(r.Out)-skip, src)
			v.Sig = sig("short")
			return v
		}
		var got int64
		for i := w - 1; i >= 0; i-- {
			got = got<<8 | int64(r.Out[at+i])
		}
		mask := int64(1)<<(8*uint(w)) - 1
		if got != iv&mask {
			v.Fail = fmt.Sprintf("expression %q has value %d (%#x); %s emitted %#x\n--- source ---\n%s", text, iv, uint64(iv)&uint64(mask), strings.ToUpper(c.Pos), got, src)
			v.Sig = sig("value")
			return v
		}
	}
	// (b) metamorphic: the expression and its literal value assemble identically
	if !bytes.Equal(r.Out, rl.Out) {
		v.Fail = fmt.Sprintf("expression %q (= %d) and its literal value assemble differently in position %s:\n  expr:    % x\n  literal: % x\n--- source ---\n%s", text, iv, c.Pos, head(r.Out[min(skip, len(r.Out)):], 24), head(rl.Out[min(skip, len(rl.Out)):], 24), src)
		v.Sig = sig("meta")
		return v
	}
	// non-trivial: >= 2 operators of different precedence class, or a parenthesis that changes the value, or a negative operand of / or %
	p1, p2, negdiv := false, false, false
	c.E.walk(func(n *ENode) {
		switch prec(n.Op) {
		case 1:
			p1 = true
		case 2:
			p2 = true
			if n.Op != "*" {
				a, _ := n.L.eval(org)
				b, _ := n.R.eval(org)
				if (a != nil && a.Sign() < 0) || (b != nil && b.Sign() < 0) {
					negdiv = true
				}
			}
		}
	})
	v.NonTrivial = (p1 && p2) || negdiv || strings.Contains(text, "(")
	v.Sample = map[string]any{"pos": c.Pos, "expr": text, "value": iv, "equ": c.equLines()}
	return v
}

var propC06 = &Prop[ExprCase]{
	ID:   "C06",
	Rule: "expression trees up to depth 4 over boundary and uniform literals (decimal, negative decimal, hex), + - * / %, needed and redundant parentheses, EQU names standing for sub-expressions (defined innermost first, or - one case in three - outermost first, so that bodies name constants defined further down), $, random spacing around operators; in every operand position (DD, DW, DB, 32- and 16-bit immediates, displacement, RESB, EQU body - there $ is the address of the definition, the use follows three bytes later), one case in five behind an out-of-reach Jcc that forces a second assembly round; oracle (a) arbitrary-precision reference evaluator with usual precedence, left associativity, truncating division; (b) metamorphic: expression vs its literal value assemble identically; non-trivial = operators of both precedence classes, or parentheses, or a negative operand of / or %; distinct by (position, mode, origin, rendered expression)",
	Gen: func(t *rapid.T) ExprCase {
		c := ExprCase{
			Mode: rapid.SampledFrom([]int{0, 32}).Draw(t, "mode"),
			Org:  rapid.SampledFrom([]int64{-1, 0x7c00, 0x100}).Draw(t, "org"),
			Pos:  rapid.SampledFrom([]string{"dd", "dd", "dw", "db", "imm32", "imm16", "disp", "resb", "equ"}).Draw(t, "pos"),
		}
		var equs []*ENode
		used := map[string]bool{"qq": true}
		c.E = genENode(t, rapid.IntRange(1, 4).Draw(t, "depth"), true, &equs, used)
		if rapid.IntRange(0, 4).Draw(t, "ctx") == 0 {
			c.Ctx = "widen"
		}
		c.Fwd = rapid.IntRange(0, 2).Draw(t, "fwd") == 0
		return c
	},
	Check: checkC06,
}

func TestC06(t *testing.T) { Run(t, propC06) }
