package props

import (
	"fmt"
	"os"
	"regexp"
	"strings"
	"sync"

	"github.com/HobbyOSs/gosk/verifharness/sem"
	"github.com/HobbyOSs/gosk/verifharness/x86asm"
	"pgregory.net/rapid"
)

func repoDir() string {
	if d := os.Getenv("VERIF_REPO"); d != "" {
		return d
	}
	return "/repo"
}

var (
	opcodesOnce sync.Once
	opcodes     []string
)

// GrammarOpcodes reads the mnemonic list from the tree's grammar, so the
// checks follow the code under test.
func GrammarOpcodes() []string {
	opcodesOnce.Do(func() {
		b, err := os.ReadFile(repoDir() + "/internal/gen/grammar.peg")
		if err != nil {
			panic(err)
		}
		s := string(b)
		i := strings.Index(s, "\nOpcode =")
		if i < 0 {
			panic("Opcode rule not found in grammar.peg")
		}
		s = s[i:]
		j := strings.Index(s, ";")
		s = s[:j]
		re := regexp.MustCompile(`"([A-Z0-9]+)"`)
		seen := map[string]bool{}
		for _, m := range re.FindAllStringSubmatch(s, -1) {
			if !seen[m[1]] {
				seen[m[1]] = true
				opcodes = append(opcodes, m[1])
			}
		}
	})
	return opcodes
}

var (
	x86opsOnce sync.Once
	x86ops     map[string]bool
)

// X86asmKnows reports whether the reference decoder has an operation of this
// (canonical) name at all.
func X86asmKnows(mn string) bool {
	x86opsOnce.Do(func() {
		x86ops = map[string]bool{}
		for op := x86asm.Op(1); op < 2000; op++ {
			s := op.String()
			if strings.HasPrefix(s, "Op(") {
				continue
			}
			x86ops[sem.CanonOp(s)] = true
		}
	})
	return x86ops[sem.CanonOp(mn)]
}

// Boundary immediates named by the quantifiers of C01/C18.
var boundaryPos = []int64{0, 1, 0x7f, 0x80, 0xff, 0x100, 0x7fff, 0x8000, 0xffff, 0x10000, 0x7fffffff, 0x80000000, 0xffffffff}

func BoundaryImms() []int64 {
	var v []int64
	v = append(v, boundaryPos...)
	for _, p := range boundaryPos[1:] {
		v = append(v, -p)
	}
	v = append(v, -129, 0x81, 0xfe, 0xff80, 0xffffff80, 2, -2)
	return v
}

var imm8Set = []int64{0, 1, 2, 3, 7, 8, 0x10, 0x1f, 0x20, 0x7f, 0x80, 0xfe, 0xff}

// renderImm renders v in style: 0 decimal, 1 hex (non-negative only), 2 upper hex.
func renderImm(v int64, style int) string {
	if v < 0 || style == 0 {
		return fmt.Sprintf("%d", v)
	}
	if style == 2 {
		return fmt.Sprintf("0x%X", v)
	}
	return fmt.Sprintf("0x%x", v)
}

func immOp(v int64, style int) sem.Operand { return sem.IT(v, renderImm(v, style)) }

// genImm draws an immediate: half boundary values, half uniform in a width class.
func genImm(t *rapid.T, label string) sem.Operand {
	var v int64
	if rapid.Bool().Draw(t, label+"_boundary") {
		v = rapid.SampledFrom(BoundaryImms()).Draw(t, label+"_bv")
	} else {
		switch rapid.IntRange(0, 3).Draw(t, label+"_class") {
		case 0:
			v = rapid.Int64Range(-128, 255).Draw(t, label)
		case 1:
			v = rapid.Int64Range(-32768, 65535).Draw(t, label)
		case 2:
			v = rapid.Int64Range(-2147483648, 4294967295).Draw(t, label)
		default:
			v = rapid.Int64Range(-140, 140).Draw(t, label)
		}
	}
	return immOp(v, rapid.IntRange(0, 2).Draw(t, label+"_style"))
}

func genImm8(t *rapid.T, label string) sem.Operand {
	var v int64
	if rapid.Bool().Draw(t, label+"_boundary") {
		v = rapid.SampledFrom(imm8Set).Draw(t, label+"_bv")
	} else {
		v = rapid.Int64Range(0, 255).Draw(t, label)
	}
	return immOp(v, rapid.IntRange(0, 2).Draw(t, label+"_style"))
}

// simple memory shapes for C01 (C02 owns addressing)
var simpleMems = []sem.Mem{
	{Base: "BX"},
	{Base: "SI"},
	{Base: "DI", Disp: 4, HasDisp: true},
	{Base: "BP", Disp: 8, HasDisp: true},
	{Base: "BX", Index: "SI"},
	{Disp: 0x0ff0},
	{Base: "EBX"},
	{Base: "ESI", Disp: 16, HasDisp: true},
	{Base: "EAX", Index: "ECX", Scale: 4},
	{Base: "ESP", Disp: 4, HasDisp: true},
}

func memOp(i int, size string) sem.Operand {
	m := simpleMems[i%len(simpleMems)]
	m.Size = size
	return sem.M(m)
}

func regsOf(bits int) []string {
	switch bits {
	case 8:
		return sem.Regs8
	case 16:
		return sem.Regs16
	}
	return sem.Regs32
}

func sizeKw(bits int) string {
	switch bits {
	case 8:
		return "BYTE"
	case 16:
		return "WORD"
	}
	return "DWORD"
}

func accOf(bits int) string {
	switch bits {
	case 8:
		return "AL"
	case 16:
		return "AX"
	}
	return "EAX"
}

// slot describes the domain of one operand position of a form.
// r8 r16 r32 sreg creg imm imm8 mem mB mW mD (typed memory) acc8 acc16 acc32 DX CL
type form struct {
	Mn    string
	Slots []string
	Class string
}

func slotDomain(slot string, enum bool) []sem.Operand {
	var out []sem.Operand
	switch slot {
	case "r8", "r16", "r32":
		bits := map[string]int{"r8": 8, "r16": 16, "r32": 32}[slot]
		for _, r := range regsOf(bits) {
			out = append(out, sem.R(r))
		}
	case "sreg":
		for _, r := range sem.Sregs {
			out = append(out, sem.R(r))
		}
	case "creg":
		for _, r := range sem.Cregs {
			out = append(out, sem.R(r))
		}
	case "imm":
		for _, v := range BoundaryImms() {
			out = append(out, immOp(v, 1))
		}
	case "imm8":
		for _, v := range imm8Set {
			out = append(out, immOp(v, 0))
		}
	case "mem", "mB", "mW", "mD":
		size := map[string]string{"mem": "", "mB": "BYTE", "mW": "WORD", "mD": "DWORD"}[slot]
		for i := range simpleMems {
			out = append(out, memOp(i, size))
		}
	case "moffs":
		for _, a := range []int64{0, 1, 0x10, 0x0ff0, 0x7fff, 0x8000, 0xffff} {
			out = append(out, sem.M(sem.Mem{Disp: a, HasDisp: true}))
		}
	case "acc8", "acc16", "acc32":
		out = append(out, sem.R(map[string]string{"acc8": "AL", "acc16": "AX", "acc32": "EAX"}[slot]))
	case "DX", "CL":
		out = append(out, sem.R(slot))
	default:
		panic("unknown slot " + slot)
	}
	return out
}

func drawSlot(t *rapid.T, slot, label string) sem.Operand {
	switch slot {
	case "imm":
		return genImm(t, label)
	case "imm8":
		return genImm8(t, label)
	}
	d := slotDomain(slot, false)
	return d[rapid.IntRange(0, len(d)-1).Draw(t, label)]
}

// enumForm yields the full cross product of a form's slot domains.
func enumForm(f form, yield func(sem.Stmt)) {
	doms := make([][]sem.Operand, len(f.Slots))
	for i, s := range f.Slots {
		doms[i] = slotDomain(s, true)
	}
	ops := make([]sem.Operand, len(f.Slots))
	var rec func(i int)
	rec = func(i int) {
		if i == len(doms) {
			cp := make([]sem.Operand, len(ops))
			copy(cp, ops)
			yield(sem.Stmt{Mn: f.Mn, Ops: cp})
			return
		}
		for _, o := range doms[i] {
			ops[i] = o
			rec(i + 1)
		}
	}
	rec(0)
}

// enumFormReduced yields a reduced grid of a form: the full domain of its widest non-register slot (boundary
// immediates, memory shapes, absolute addresses) with one register per register slot, rotating with *k.
func enumFormReduced(f form, k *int, yield func(sem.Stmt)) {
	doms := make([][]sem.Operand, len(f.Slots))
	wide := -1
	for i, sl := range f.Slots {
		doms[i] = slotDomain(sl, true)
		if len(doms[i]) > 8 || sl == "moffs" {
			wide = i
		}
	}
	n := 1
	if wide >= 0 {
		n = len(doms[wide])
	}
	for j := 0; j < n; j++ {
		ops := make([]sem.Operand, len(f.Slots))
		for i := range f.Slots {
			if i == wide {
				ops[i] = doms[i][j]
			} else {
				ops[i] = doms[i][(*k+i)%len(doms[i])]
			}
		}
		*k++
		yield(sem.Stmt{Mn: f.Mn, Ops: ops})
	}
}

func drawForm(t *rapid.T, f form) sem.Stmt {
	ops := make([]sem.Operand, len(f.Slots))
	for i, s := range f.Slots {
		ops[i] = drawSlot(t, s, fmt.Sprintf("op%d", i))
	}
	return sem.Stmt{Mn: f.Mn, Ops: ops}
}

var aluOps = []string{"ADD", "SUB", "CMP", "AND", "OR", "XOR", "ADC", "SBB"}
var shiftOps = []string{"SHL", "SHR", "SAR"}
var unaryOps = []string{"NOT", "NEG", "INC", "DEC", "MUL", "DIV", "IDIV"}

// InstForms is the catalogue of instruction forms of C01's quantifier.
func InstForms() []form {
	var fs []form
	add := func(class, mn string, slots ...string) {
		fs = append(fs, form{Mn: mn, Slots: slots, Class: class})
	}
	for _, w := range []string{"8", "16", "32"} {
		r, m := "r"+w, map[string]string{"8": "mB", "16": "mW", "32": "mD"}[w]
		add("mov.rr", "MOV", r, r)
		add("mov.ri", "MOV", r, "imm")
		add("mov.rm", "MOV", r, "mem")
		add("mov.mr", "MOV", "mem", r)
		add("mov.mi", "MOV", m, "imm")
		for _, op := range aluOps {
			add("alu.rr", op, r, r)
			add("alu.ri", op, r, "imm")
			add("alu.rm", op, r, "mem")
			add("alu.mr", op, "mem", r)
			add("alu.mi", op, m, "imm")
		}
		for _, op := range shiftOps {
			add("shift.ri", op, r, "imm8")
			add("shift.mi", op, m, "imm8")
			add("shift.rcl", op, r, "CL")
		}
		for _, op := range unaryOps {
			add("unary.r", op, r)
			add("unary.m", op, m)
		}
		add("in.imm", "IN", "acc"+w, "imm8")
		add("in.dx", "IN", "acc"+w, "DX")
		add("out.imm", "OUT", "imm8", "acc"+w)
		add("out.dx", "OUT", "DX", "acc"+w)
	}
	for _, w := range []string{"8", "16", "32"} {
		// accumulator <-> absolute address (the forms without ModR/M)
		add("mov.moffs", "MOV", "acc"+w, "moffs")
		add("mov.moffs", "MOV", "moffs", "acc"+w)
	}
	add("mov.sreg", "MOV", "sreg", "r16")
	add("mov.sreg", "MOV", "r16", "sreg")
	add("mov.sregm", "MOV", "sreg", "mem")
	add("mov.sregm", "MOV", "mem", "sreg")
	add("mov.creg", "MOV", "r32", "creg")
	add("mov.creg", "MOV", "creg", "r32")
	for _, w := range []string{"16", "32"} {
		r := "r" + w
		add("imul.ri", "IMUL", r, "imm")
		add("imul.rr", "IMUL", r, r)
		add("imul.rm", "IMUL", r, "mem")
		add("imul.rri", "IMUL", r, r, "imm")
		add("imul.r", "IMUL", r)
		add("stack.r", "PUSH", r)
		add("stack.r", "POP", r)
	}
	add("stack.sreg", "PUSH", "sreg")
	add("stack.sreg", "POP", "sreg")
	add("stack.m", "PUSH", "mW")
	add("stack.m", "PUSH", "mD")
	add("stack.m", "POP", "mW")
	add("stack.m", "POP", "mD")
	add("stack.i", "PUSH", "imm")
	add("int", "INT", "imm8")
	add("ret", "RET")
	add("ret.i", "RET", "imm")
	add("lgdt", "LGDT", "mem")
	return fs
}
