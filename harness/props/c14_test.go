package props

import (
	"bytes"
	"fmt"
	"strings"
	"testing"

	"github.com/HobbyOSs/gosk/verifharness/asm"
	"github.com/HobbyOSs/gosk/verifharness/sem"
	"pgregory.net/rapid"
)

// ---------------------------------------------------------------------------
// C14 — statements assemble independently of their neighbours:
// out(H;A;B;C) = out(H;A) || out(H;B) || out(H;C) for label-free,
// position-independent sequences.

type SeqStmt struct {
	Text string `json:"t"`
	Cls  string `json:"c"`
}

type ConcatCase struct {
	Mode int         `json:"mode"`
	Equs [][2]string `json:"equs,omitempty"` // name, body — shared preamble H
	Seqs [][]SeqStmt `json:"seqs"`           // A, B, (C)
}

func (c *ConcatCase) header() string {
	var sb strings.Builder
	sb.WriteString(sem.Header(c.Mode))
	for _, e := range c.Equs {
		fmt.Fprintf(&sb, "%s\tEQU\t%s\n", e[0], e[1])
	}
	return sb.String()
}

func seqText(ss []SeqStmt) string {
	var sb strings.Builder
	for _, s := range ss {
		sb.WriteString("\t" + s.Text + "\n")
	}
	return sb.String()
}

// genIndepStmt: a statement whose bytes may depend only on itself, the mode
// and the EQU values it names (no $, ALIGNB, labels or branches).
func genIndepStmt(t *rapid.T, mode int, equs [][2]string) SeqStmt {
	k := rapid.IntRange(0, 9).Draw(t, "ik")
	switch {
	case k == 0 && len(equs) > 0:
		e := equs[rapid.IntRange(0, len(equs)-1).Draw(t, "ie")]
		reg := regsOf(rapid.SampledFrom([]int{8, 16, 32}).Draw(t, "ib"))[rapid.IntRange(0, 7).Draw(t, "ir")]
		op := rapid.SampledFrom([]string{"MOV", "ADD", "CMP", "AND"}).Draw(t, "iop")
		text := fmt.Sprintf("%s %s,%s", op, reg, e[0])
		// acceptance must be probed with the definition present
		r := asm.Assemble(sem.Header(mode) + e[0] + "\tEQU\t" + e[1] + "\n\t" + text + "\n")
		if asm.Diagnosed(r, asm.Baseline(sem.Header(mode))) || len(r.Out) == 0 {
			return SeqStmt{"NOP", "noparam"}
		}
		return SeqStmt{text, "equ.use"}
	case k == 1:
		return SeqStmt{fmt.Sprintf("RESB %d", rapid.IntRange(0, 40).Draw(t, "iresb")), "resb"}
	case k == 2:
		mn := rapid.SampledFrom([]string{"JMP", "CALL", "JE"}).Draw(t, "ifar")
		if mn == "JMP" && rapid.Bool().Draw(t, "isfar") {
			return SeqStmt{fmt.Sprintf("JMP DWORD %d:0x%x", rapid.SampledFrom([]int{8, 16}).Draw(t, "isel"), rapid.SampledFrom([]int{0, 0x1b, 0x280000}).Draw(t, "ioff")), "farjmp"}
		}
		return SeqStmt{rapid.SampledFrom(plainNoOperand).Draw(t, "inop"), "noparam"}
	}
	text, cls := genPlainStmt(t, mode, true)
	return SeqStmt{text, cls}
}

func checkC14(c ConcatCase) Verdict {
	h := c.header()
	whole := h
	for _, s := range c.Seqs {
		whole += seqText(s)
	}
	v := Verdict{Key: whole}
	base := asm.Baseline(sem.Header(c.Mode))
	rw := asm.Assemble(whole)
	if asm.Diagnosed(rw, base) {
		v.Skip = "diagnosed: " + asm.DiagClass(rw, base)
		return v
	}
	var cat []byte
	var parts [][]byte
	for i, s := range c.Seqs {
		r := asm.Assemble(h + seqText(s))
		if asm.Diagnosed(r, base) {
			v.Fail = fmt.Sprintf("the whole program assembles without diagnostic, but part %d alone is diagnosed (%s)\n--- whole ---\n%s", i, asm.DiagClass(r, base), whole)
			v.Sig = "C14|part-diagnosed"
			return v
		}
		parts = append(parts, r.Out)
		cat = append(cat, r.Out...)
	}
	if !bytes.Equal(rw.Out, cat) {
		at := 0
		for at < len(cat) && at < len(rw.Out) && cat[at] == rw.Out[at] {
			at++
		}
		// which part contains the first difference
		pi, acc := 0, 0
		for i, p := range parts {
			if at < acc+len(p) {
				pi = i
				break
			}
			acc += len(p)
			pi = i
		}
		v.Fail = fmt.Sprintf("out(A;B;..) differs from out(A)||out(B)||.. at offset %d (inside part %d): whole % x, concatenation % x\n--- whole ---\n%s", at, pi, clip(rw.Out, at), clip(cat, at), whole)
		v.Sig = fmt.Sprintf("C14|concat|mode=%d", sem.ModeOf(c.Mode))
		return v
	}
	cls := map[string]bool{}
	nonEmpty := 0
	for _, s := range c.Seqs {
		if len(s) > 0 {
			nonEmpty++
		}
		for _, x := range s {
			cls[x.Cls] = true
		}
	}
	v.NonTrivial = nonEmpty >= 2 && len(cls) >= 2
	v.Class = fmt.Sprintf("parts=%d", len(c.Seqs))
	v.Sample = map[string]any{"source": whole, "bytes": len(cat)}
	return v
}

var propC14 = &Prop[ConcatCase]{
	ID:   "C14",
	Rule: "two or three label-free, position-independent statement sequences (instruction forms of C01, memory forms of C02, data directives, RESB, INT, far JMP, uses of shared EQU names; no $, ALIGNB, labels, relative branches) under one mode header; oracle: out(H;A;B;C) = out(H;A) || out(H;B) || out(H;C); non-trivial = at least two non-empty parts with statements of different form classes; distinct by source text",
	Gen: func(t *rapid.T) ConcatCase {
		c := ConcatCase{Mode: rapid.SampledFrom([]int{0, 16, 32}).Draw(t, "mode")}
		used := map[string]bool{}
		for i := rapid.IntRange(0, 2).Draw(t, "nequ"); i > 0; i-- {
			v := rapid.SampledFrom([]int64{0, 1, 0x7f, 0x80, 0xff, 0x100, 0x7fff, 0x12345}).Draw(t, "equv")
			c.Equs = append(c.Equs, [2]string{genName(t, "equn", used), renderImm(v, 1)})
		}
		np := rapid.IntRange(2, 3).Draw(t, "nparts")
		for p := 0; p < np; p++ {
			var seq []SeqStmt
			for i := rapid.IntRange(0, 5).Draw(t, "nseq"); i > 0; i-- {
				seq = append(seq, genIndepStmt(t, c.Mode, c.Equs))
			}
			c.Seqs = append(c.Seqs, seq)
		}
		return c
	},
	Check: checkC14,
}

func TestC14(t *testing.T) { Run(t, propC14) }
