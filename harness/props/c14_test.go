package props

import (
	"bytes"
	"fmt"
	"strings"
	"testing"

	"github.com/HobbyOSs/gosk/verifharness/asm"
	"github.com/HobbyOSs/gosk/verifharness/sem"
	"pgregory.net/rapid"
)

// ---------------------------------------------------------------------------
// C14 — statements assemble independently of their neighbours:
// out(H;A;B;C) = out(H;A) || out(H;B) || out(H;C) for label-free,
// position-independent sequences.

type SeqStmt struct {
	Text string `json:"t"`
	Cls  string `json:"c"`
}

type ConcatCase struct {
	Mode int         `json:"mode"`
	Equs [][2]string `json:"equs,omitempty"` // name, body — shared preamble H
	Seqs [][]SeqStmt `json:"seqs"`           // A, B, (C)
	// PartMode[i]: 0 = part i follows the mode in force, 16/32 = a [BITS n] directive is written in front of it
	PartMode []int `json:"partmode,omitempty"`
	// Fresh: the parts are additionally assembled by the gosk binary, one fresh process each, so
	// that state surviving from one assembly to the next inside this process cannot hide on both sides
	Fresh bool `json:"fresh,omitempty"`
	// Insert: byte-less statements written between the parts of the whole program (comments aside, the kind of
	// "unrelated statement" the property speaks of): a new EQU, the re-assignment of an EQU name that no later
	// statement mentions, GLOBAL/EXTERN of a fresh name, a bracket directive. They must not change a byte.
	Insert []string `json:"insert,omitempty"`
	hidden map[string]bool
}

func (c *ConcatCase) header() string { return c.headerFor(c.Mode) }

func (c *ConcatCase) headerFor(mode int) string {
	var sb strings.Builder
	sb.WriteString(sem.Header(mode))
	for _, e := range c.Equs {
		fmt.Fprintf(&sb, "%s\tEQU\t%s\n", e[0], e[1])
	}
	return sb.String()
}

// effMode: the mode in force for part i (its own directive, else the nearest earlier one, else the header's).
func (c *ConcatCase) effMode(i int) int {
	for j := i; j >= 0; j-- {
		if j < len(c.PartMode) && c.PartMode[j] != 0 {
			return c.PartMode[j]
		}
	}
	return c.Mode
}

func (c *ConcatCase) partDirective(i int) string {
	if i < len(c.PartMode) {
		return bitsDirective(c.PartMode[i])
	}
	return ""
}

func seqText(ss []SeqStmt) string {
	var sb strings.Builder
	for _, s := range ss {
		sb.WriteString("\t" + s.Text + "\n")
	}
	return sb.String()
}

// genIndepStmt: a statement whose bytes may depend only on itself, the mode
// and the EQU values it names (no $, ALIGNB, labels or branches).
func genIndepStmt(t *rapid.T, mode int, equs [][2]string) SeqStmt {
	k := rapid.IntRange(0, 9).Draw(t, "ik")
	// programs that define a non-numeric EQU use their names three times as often (the interesting cases
	// need at least two uses of the same name in the whole program)
	if k >= 7 && len(equs) > 0 {
		for _, e := range equs {
			if sem.RegBits(e[1]) != 0 || strings.HasPrefix(e[1], "\"") || strings.HasPrefix(e[1], "[") {
				k = 0
			}
		}
	}
	switch {
	case k == 0 && len(equs) > 0:
		e := equs[rapid.IntRange(0, len(equs)-1).Draw(t, "ie")]
		if bits := sem.RegBits(e[1]); bits != 0 || strings.HasPrefix(e[1], "\"") || strings.HasPrefix(e[1], "[") {
			// an EQU that stands for a register, a string or a memory operand (nothing to fold): every use must expand alike
			var text string
			switch {
			case strings.HasPrefix(e[1], "\""):
				text = fmt.Sprintf("DB %s,%d", e[0], rapid.IntRange(0, 9).Draw(t, "isv"))
			case strings.HasPrefix(e[1], "["):
				text = fmt.Sprintf(rapid.SampledFrom([]string{"MOV AX,%s", "MOV %s,CX", "ADD DX,%s", "MOV BL,%s"}).Draw(t, "imt"), e[0])
			default:
				other := regsOf(bits)[rapid.IntRange(0, 7).Draw(t, "iar")]
				tmpl := rapid.SampledFrom([]string{"MOV " + other + ",%s", "MOV %s," + other, "ADD %s,1", "XOR %s,%s", "PUSH %s"}).Draw(t, "iat")
				text = strings.ReplaceAll(tmpl, "%s", e[0])
			}
			r := asm.Assemble(sem.Header(mode) + e[0] + "\tEQU\t" + e[1] + "\n\t" + text + "\n")
			if asm.Diagnosed(r, asm.Baseline(sem.Header(mode))) || len(r.Out) == 0 {
				return SeqStmt{"NOP", "noparam"}
			}
			return SeqStmt{text, "equ.alias"}
		}
		reg := regsOf(rapid.SampledFrom([]int{8, 16, 32}).Draw(t, "ib"))[rapid.IntRange(0, 7).Draw(t, "ir")]
		op := rapid.SampledFrom([]string{"MOV", "ADD", "CMP", "AND"}).Draw(t, "iop")
		// the name alone, or inside an expression / a memory operand / a data directive
		use := e[0]
		switch rapid.IntRange(0, 7).Draw(t, "iuse") {
		case 0:
			use = fmt.Sprintf("%s+%d", e[0], rapid.IntRange(1, 9).Draw(t, "iadd"))
		case 1:
			use = fmt.Sprintf("%s*2", e[0])
		case 2:
			use = fmt.Sprintf("%s-1", e[0])
		case 3:
			use = fmt.Sprintf("%d+%s", rapid.IntRange(1, 9).Draw(t, "iadd"), e[0])
		}
		text := fmt.Sprintf("%s %s,%s", op, reg, use)
		switch rapid.IntRange(0, 7).Draw(t, "ipos") {
		case 0:
			text = fmt.Sprintf("MOV %s,[%s]", reg, use)
		case 1:
			text = fmt.Sprintf("%s %s", rapid.SampledFrom([]string{"DB", "DW", "DD"}).Draw(t, "idir"), use)
		case 2:
			text = fmt.Sprintf("RESB %s", use)
		}
		// acceptance must be probed with the definition present
		r := asm.Assemble(sem.Header(mode) + e[0] + "\tEQU\t" + e[1] + "\n\t" + text + "\n")
		if asm.Diagnosed(r, asm.Baseline(sem.Header(mode))) || len(r.Out) == 0 || len(r.Out) > 4096 {
			return SeqStmt{"NOP", "noparam"}
		}
		return SeqStmt{text, "equ.use"}
	case k == 1:
		if rapid.IntRange(0, 5).Draw(t, "iresbbig") == 0 {
			// large reservations, followed by whatever comes next (anything that buffers them must keep the order)
			return SeqStmt{fmt.Sprintf("RESB %d", rapid.SampledFrom([]int{255, 256, 4095, 4096, 4097, 5000, 65536, 70000}).Draw(t, "iresbn")), "resb"}
		}
		return SeqStmt{fmt.Sprintf("RESB %d", rapid.IntRange(0, 40).Draw(t, "iresb")), "resb"}
	case k == 2:
		mn := rapid.SampledFrom([]string{"JMP", "CALL", "JE"}).Draw(t, "ifar")
		if mn == "JMP" && rapid.Bool().Draw(t, "isfar") {
			return SeqStmt{fmt.Sprintf("JMP DWORD %d:0x%x", rapid.SampledFrom([]int{8, 16}).Draw(t, "isel"), rapid.SampledFrom([]int{0, 0x1b, 0x280000}).Draw(t, "ioff")), "farjmp"}
		}
		return SeqStmt{rapid.SampledFrom(plainNoOperand).Draw(t, "inop"), "noparam"}
	}
	text, cls := genPlainStmt(t, mode, true)
	return SeqStmt{text, cls}
}

func checkC14(c ConcatCase) Verdict {
	h := c.header()
	whole := h
	for i, s := range c.Seqs {
		if i > 0 && i-1 < len(c.Insert) && c.Insert[i-1] != "" {
			whole += c.Insert[i-1] + "\n"
		}
		whole += c.partDirective(i) + seqText(s)
	}
	v := Verdict{Key: whole}
	dirs := sem.Header(c.Mode)
	for i := range c.Seqs {
		dirs += c.partDirective(i)
	}
	for _, ins := range c.Insert {
		if ins != "" && !strings.Contains(ins, "EQU") {
			dirs += ins + "\n"
		}
	}
	base := asm.Baseline(dirs)
	rw := asm.Assemble(whole)
	if asm.Diagnosed(rw, base) {
		// the whole is diagnosed: then some part alone must be too (a statement that assembles cleanly on
		// its own may not be refused because of unrelated neighbours)
		if rw.Panic != "" {
			v.Skip = "panic (C13 decides)"
			return v
		}
		for i, s := range c.Seqs {
			r := asm.Assemble(c.headerFor(c.effMode(i)) + seqText(s))
			if asm.Diagnosed(r, asm.Baseline(sem.Header(c.effMode(i)))) {
				v.Skip = "diagnosed: " + asm.DiagClass(rw, base)
				return v
			}
		}
		v.Fail = fmt.Sprintf("every part assembles without diagnostic on its own, but the whole program is diagnosed (%s)\n--- whole ---\n%s", asm.DiagClass(rw, base), whole)
		v.Sig = "C14|whole-diagnosed"
		return v
	}
	var cat []byte
	var parts [][]byte
	for i, s := range c.Seqs {
		r := asm.Assemble(c.headerFor(c.effMode(i)) + seqText(s))
		if pb := asm.Baseline(sem.Header(c.effMode(i))); asm.Diagnosed(r, pb) {
			v.Fail = fmt.Sprintf("the whole program assembles without diagnostic, but part %d alone is diagnosed (%s)\n--- whole ---\n%s", i, asm.DiagClass(r, pb), whole)
			v.Sig = "C14|part-diagnosed"
			return v
		}
		parts = append(parts, r.Out)
		cat = append(cat, r.Out...)
	}
	if !bytes.Equal(rw.Out, cat) {
		at := 0
		for at < len(cat) && at < len(rw.Out) && cat[at] == rw.Out[at] {
			at++
		}
		// which part contains the first difference
		pi, acc := 0, 0
		for i, p := range parts {
			if at < acc+len(p) {
				pi = i
				break
			}
			acc += len(p)
			pi = i
		}
		v.Fail = fmt.Sprintf("out(A;B;..) differs from out(A)||out(B)||.. at offset %d (inside part %d): whole % x, concatenation % x\n--- whole ---\n%s", at, pi, clip(rw.Out, at), clip(cat, at), whole)
		v.Sig = fmt.Sprintf("C14|concat|mode=%d|switch=%v", sem.ModeOf(c.effMode(pi)), len(c.PartMode) > 0)
		return v
	}
	if c.Fresh && asm.GoskPath() != "" {
		var fcat []byte
		for i, s := range c.Seqs {
			b, ok := asm.FreshProcessBytes(c.headerFor(c.effMode(i)) + seqText(s))
			if !ok && asm.FreshProcessUndecided(c.headerFor(c.effMode(i))+seqText(s)) {
				v.Skip = "the gosk binary did not finish (time-out or start failure): inconclusive"
				return v
			}
			if !ok {
				v.Fail = fmt.Sprintf("part %d assembles in this process but the gosk binary fails on it\n--- part ---\n%s", i, c.headerFor(c.effMode(i))+seqText(s))
				v.Sig = "C14|fresh-fails"
				return v
			}
			fcat = append(fcat, b...)
		}
		if !bytes.Equal(rw.Out, fcat) {
			at := 0
			for at < len(fcat) && at < len(rw.Out) && fcat[at] == rw.Out[at] {
				at++
			}
			v.Fail = fmt.Sprintf("out(A;B;..) assembled after other programs in this process differs from the parts assembled one per fresh process at offset %d: whole % x, parts % x\n--- whole ---\n%s", at, clip(rw.Out, at), clip(fcat, at), whole)
			v.Sig = fmt.Sprintf("C14|fresh|mode=%d", sem.ModeOf(c.Mode))
			return v
		}
	}
	cls := map[string]bool{}
	nonEmpty := 0
	for _, s := range c.Seqs {
		if len(s) > 0 {
			nonEmpty++
		}
		for _, x := range s {
			cls[x.Cls] = true
		}
	}
	v.NonTrivial = nonEmpty >= 2 && len(cls) >= 2
	v.Class = fmt.Sprintf("parts=%d,fresh=%v,switch=%v,insert=%v", len(c.Seqs), c.Fresh, len(c.PartMode) > 0, len(c.Insert) > 0)
	v.Sample = map[string]any{"source": whole, "bytes": len(cat)}
	return v
}

var propC14 = &Prop[ConcatCase]{
	ID:   "C14",
	Rule: "two or three label-free, position-independent statement sequences (instruction forms of C01, memory forms of C02, data directives, RESB, INT, far JMP, uses of shared EQU names (numbers, names derived from other names and written before or after them, and names standing for a register, a string or a memory operand) alone and inside expressions, memory operands, data directives and RESB; no $, ALIGNB, labels, relative branches) under one mode header, one case in three with byte-less statements inserted between the parts of the whole (a new EQU, the re-assignment of an EQU name that only earlier definitions mention, GLOBAL/EXTERN of a fresh name, a bracket directive) (one case in four: a [BITS n] directive in front of some parts, so the mode in force changes between them); oracle: the whole is diagnosed only if some part alone is, and out(H;A;B;C) = out(H;A) || out(H;B) || out(H;C), every part assembled alone under the mode in force for it, and for one case in fifty (with parts of 6..14 statements) also = the parts assembled by the gosk binary, one fresh process each; non-trivial = at least two non-empty parts with statements of different form classes; distinct by source text",
	Gen: func(t *rapid.T) ConcatCase {
		c := ConcatCase{Mode: rapid.SampledFrom([]int{0, 16, 32}).Draw(t, "mode")}
		used := map[string]bool{}
		for i := rapid.IntRange(0, 2).Draw(t, "nequ"); i > 0; i-- {
			v := rapid.SampledFrom([]int64{0, 1, 0x7f, 0x80, 0xff, 0x100, 0x7fff, 0x12345}).Draw(t, "equv")
			body := renderImm(v, 1)
			if rapid.IntRange(0, 3).Draw(t, "equalias") == 0 {
				body = rapid.SampledFrom([]string{"BX", "AL", "ECX", "SI", "DH", "EAX", "\"ab\"", "\"x, y\"", "[BX]", "[0x1234]", "[ESI+4]"}).Draw(t, "equaliasb")
			}
			c.Equs = append(c.Equs, [2]string{genName(t, "equn", used), body})
		}
		// derived names: a body over another name, written before or after that name's own definition, and
		// possibly never used (a definition that is only looked at must not change what later statements get)
		if n := len(c.Equs); n > 0 && rapid.IntRange(0, 2).Draw(t, "derived") == 0 {
			for k := rapid.IntRange(1, 3).Draw(t, "nderived"); k > 0; k-- {
				base := c.Equs[rapid.IntRange(0, n-1).Draw(t, "dbase")]
				if sem.RegBits(base[1]) != 0 || strings.HasPrefix(base[1], "\"") || strings.HasPrefix(base[1], "[") {
					continue
				}
				d := [2]string{genName(t, "dname", used), fmt.Sprintf(rapid.SampledFrom([]string{"%s+1", "%s*2", "%s-3", "2+%s", "(%s+1)*2"}).Draw(t, "dform"), base[0])}
				at := rapid.IntRange(0, len(c.Equs)).Draw(t, "dat")
				c.Equs = append(c.Equs[:at], append([][2]string{d}, c.Equs[at:]...)...)
			}
		}
		// insertions between the parts (one case in three). A re-assigned EQU name is one that the parts do not
		// mention themselves: only names derived from it (and defined after it) are used
		insertPlan := rapid.IntRange(0, 2).Draw(t, "insertplan") == 0
		var reassign, derivedUses []string
		if insertPlan {
			base := genName(t, "rbase", used)
			c.Equs = append(c.Equs, [2]string{base, renderImm(rapid.SampledFrom([]int64{2, 4, 0x10}).Draw(t, "rbasev"), 0)})
			for k := rapid.IntRange(1, 2).Draw(t, "nrder"); k > 0; k-- {
				body := fmt.Sprintf(rapid.SampledFrom([]string{"%s*4+1", "%s+1", "[BX+%s]", "[%s+0x100]", "[SI+%s*2]"}).Draw(t, "rform"), base)
				dn := genName(t, "rder", used)
				c.Equs = append(c.Equs, [2]string{dn, body})
				derivedUses = append(derivedUses, fmt.Sprintf(rapid.SampledFrom([]string{"MOV AX,%s", "ADD CX,%s", "MOV DX,%s"}).Draw(t, "ruse"), dn))
			}
			reassign = append(reassign, base+"\tEQU\t"+renderImm(rapid.SampledFrom([]int64{6, 0x7f, 0x1234}).Draw(t, "rnew"), 0))
			c.hidden = map[string]bool{base: true}
		}
		// a fresh process costs ~0.2 s: one case in fifty, with longer parts
		c.Fresh = rapid.IntRange(0, 49).Draw(t, "fresh") == 23 // an interior value: rapid favours the ends of a range
		lo, hi := 0, 5
		if c.Fresh {
			lo, hi = 6, 14
		}
		var usable [][2]string // the names the parts may mention
		for _, e := range c.Equs {
			if !c.hidden[e[0]] {
				usable = append(usable, e)
			}
		}
		np := rapid.IntRange(2, 3).Draw(t, "nparts")
		switching := rapid.IntRange(0, 3).Draw(t, "switching") == 0
		for p := 0; p < np; p++ {
			var seq []SeqStmt
			if switching {
				c.PartMode = append(c.PartMode, rapid.SampledFrom([]int{0, 16, 32}).Draw(t, "pmode"))
			}
			for i := rapid.IntRange(lo, hi).Draw(t, "nseq"); i > 0; i-- {
				seq = append(seq, genIndepStmt(t, c.effMode(p), usable))
			}
			// every part of an insertion case uses the derived names (before and after the insertions)
			for _, u := range derivedUses {
				if rapid.IntRange(0, 2).Draw(t, "placeruse") != 0 {
					seq = append(seq, SeqStmt{u, "equ.derived"})
				}
			}
			c.Seqs = append(c.Seqs, seq)
		}
		if insertPlan {
			for p := 1; p < len(c.Seqs); p++ {
				var ins string
				switch rapid.IntRange(0, 4).Draw(t, "inskind") {
				case 0:
					ins = reassign[0]
				case 1:
					ins = genName(t, "insn", used) + "\tEQU\t" + renderImm(rapid.Int64Range(0, 300).Draw(t, "insv"), 1)
				case 2:
					ins = "\tGLOBAL " + genName(t, "insg", used)
				case 3:
					ins = "\tEXTERN " + genName(t, "inse", used)
				default:
					ins = rapid.SampledFrom([]string{"[SECTION .text]", "[INSTRSET \"i486p\"]", "[OPTIMIZE 1]"}).Draw(t, "insd")
				}
				c.Insert = append(c.Insert, ins)
			}
		}
		return c
	},
	Check: checkC14,
}

func TestC14(t *testing.T) { Run(t, propC14) }
