package props

import (
	"fmt"
	"testing"

	"github.com/HobbyOSs/gosk/verifharness/asm"
	"github.com/HobbyOSs/gosk/verifharness/sem"
	"pgregory.net/rapid"
)

// InstCase: one instruction statement under a BITS setting (0 = no directive).
type InstCase struct {
	Mode int      `json:"mode"`
	St   sem.Stmt `json:"st"`
	Cls  string   `json:"cls,omitempty"`
	// Ctx "widen": the statement follows a 16-bit branch that does not fit rel8, so gosk assembles
	// the program twice (branch widening) - state left by the first round must not leak into the second
	Ctx string `json:"ctx,omitempty"`
}

const widenPrefix = "\tJNE zzwide\n\tRESB 200\nzzwide:\n"

// context: what is written before and after the statement under test.
//
//	widen    header; an out-of-reach Jcc (second assembly round); statement
//	twin     the same statement text first under the other mode, then under the mode under test
//	         (anything remembered per operand text or per statement text must also know the mode)
//	prebits  no directive at all (default mode); out-of-reach Jcc; statement; [BITS 32]; MOV EAX,1
//	         (the second assembly round must start again in the default mode)
func (c InstCase) context() (pre, post, directives string) {
	switch c.Ctx {
	case "widen":
		return sem.Header(c.Mode) + widenPrefix, "", sem.Header(c.Mode)
	case "twin":
		m := sem.ModeOf(c.Mode)
		return bitsDirective(48-m) + "\t" + c.St.Render() + "\n" + bitsDirective(m), "", bitsDirective(48-m) + bitsDirective(m)
	case "prebits":
		return widenPrefix, "[BITS 32]\n\tMOV EAX,1\n", "[BITS 32]\n"
	case "sibling":
		// the same statement with another register of the same width in place of its first register operand
		// comes first (anything remembered per mnemonic and memory operand must also know the register)
		sib := sem.Stmt{Mn: c.St.Mn, Ops: append([]sem.Operand{}, c.St.Ops...)}
		for i, o := range sib.Ops {
			if o.Kind == sem.KReg {
				regs := regsOf(sem.RegBits(o.Reg))
				sib.Ops[i] = sem.R(regs[(sem.RegNum(o.Reg)+1+2*(i%2))%8])
				break
			}
		}
		return sem.Header(c.Mode) + "\t" + sib.Render() + "\n", "", sem.Header(c.Mode)
	}
	return sem.Header(c.Mode), "", sem.Header(c.Mode)
}

func (c InstCase) Source() string {
	if c.Ctx != "" {
		pre, post, _ := c.context()
		return pre + "\t" + c.St.Render() + "\n" + post
	}
	return sem.Header(c.Mode) + c.St.Render() + "\n"
}

// prefix mnemonics written as a statement of their own: the one byte the
// manual assigns.
var prefixBytes = map[string]byte{
	"REP": 0xf3, "REPE": 0xf3, "REPZ": 0xf3, "REPNE": 0xf2, "REPNZ": 0xf2, "LOCK": 0xf0,
	"ES": 0x26, "CS": 0x2e, "SS": 0x36, "DS": 0x3e, "FS": 0x64, "GS": 0x65,
}

// size-less spellings that may decode at 16 bits or at the mode default
var sizeless = map[string]string{"PUSHA": "PUSHAD", "POPA": "POPAD", "PUSHF": "PUSHFD", "POPF": "POPFD", "IRET": "IRETD"}

// compareNoOperand judges a statement consisting of a mnemonic alone.
// noref=true: the reference decoder has no such operation (case leaves C01).
func compareNoOperand(mn string, mode int, out []byte) (m *sem.Mismatch, noref bool) {
	if b, ok := prefixBytes[mn]; ok {
		if len(out) == 1 && out[0] == b {
			return nil, false
		}
		return &sem.Mismatch{Kind: "prefixbyte", Detail: fmt.Sprintf("prefix mnemonic %s is byte %02x, emitted % x", mn, b, out)}, false
	}
	if !X86asmKnows(mn) {
		return nil, true
	}
	inst, mis := sem.Decode1(out, mode)
	if mis != nil {
		return mis, false
	}
	want, got := sem.CanonOp(mn), sem.CanonOp(inst.Op.String())
	if want == got {
		return nil, false
	}
	// only the size-less spelling itself (PUSHA, not PUSHAW) may follow the mode default
	if alt, ok := sizeless[mn]; ok && got == alt && mode == 32 {
		return nil, false
	}
	return &sem.Mismatch{Kind: "op", Detail: fmt.Sprintf("wrote %s, bytes % x decode as %s in %d-bit mode", mn, out, inst.Op, mode)}, false
}

func checkC01(c InstCase) Verdict { return checkInst("C01", c) }

// checkInst: accepted without diagnostic => decodes to exactly the statement written.
func checkInst(pid string, c InstCase) Verdict {
	mode := sem.ModeOf(c.Mode)
	r := asm.Assemble(c.Source())
	_, _, dirs := c.context()
	base := asm.Baseline(dirs)
	v := Verdict{Class: c.Cls, Key: fmt.Sprintf("%d|%s|%s", c.Mode, c.Ctx, c.St.Render())}
	if asm.Diagnosed(r, base) {
		v.Skip = "diagnosed"
		if r.Panic != "" {
			v.Skip = "panic(see C13)"
		}
		return v
	}
	if c.Ctx != "" {
		// strip the bytes of what surrounds the statement (each assembled alone)
		preSrc, postSrc, _ := c.context()
		pre := asm.Assemble(preSrc)
		var post *asm.Result
		if postSrc != "" {
			post = asm.Assemble(postSrc)
		} else {
			post = &asm.Result{}
		}
		if asm.Diagnosed(pre, base) || asm.Diagnosed(post, base) || len(pre.Out) == 0 {
			v.Skip = "context alone diagnosed"
			return v
		}
		n, k := len(pre.Out), len(post.Out)
		if len(r.Out) < n+k || string(r.Out[:n]) != string(pre.Out) || string(r.Out[len(r.Out)-k:]) != string(post.Out) {
			v.Fail = fmt.Sprintf("%q in context %q: the bytes of the surrounding statements changed: % x, alone they are % x ... % x\n--- source ---\n%s", c.St.Render(), c.Ctx, r.Out, pre.Out, post.Out, c.Source())
			v.Sig = pid + "|ctx-prefix|" + c.Ctx
			return v
		}
		r.Out = r.Out[n : len(r.Out)-k]
		st.Classes["ctx:"+c.Ctx]++
	}
	var m *sem.Mismatch
	if len(c.St.Ops) == 0 && c.St.Mn != "RET" {
		var noref bool
		m, noref = compareNoOperand(c.St.Mn, mode, r.Out)
		if noref {
			v.Skip = "no reference operation in decoder"
			return v
		}
	} else {
		m = sem.Compare(c.St, mode, r.Out)
	}
	if m != nil {
		v.Fail = fmt.Sprintf("%q (BITS %d) assembled silently to % x — %s", c.St.Render(), mode, r.Out, m)
		v.Sig = fmt.Sprintf(pid+"|cls=%s|mode=%d|kind=%s|st=%s|out=%x", c.Cls, mode, m.Kind, c.St.Render(), r.Out)
		if c.Ctx != "" {
			v.Fail += "\n--- source ---\n" + c.Source()
		}
		return v
	}
	v.NonTrivial = len(r.Out) > 0
	v.Sample = map[string]any{"mode": mode, "stmt": c.St.Render(), "bytes": fmt.Sprintf("% x", r.Out)}
	return v
}

// drawCtx: one case in six behind a widened branch, one in ten as a twin, default-mode cases one in ten as prebits.
func drawCtx(t *rapid.T, mode int) string {
	switch k := rapid.IntRange(0, 29).Draw(t, "ctx"); {
	case k < 5:
		return "widen"
	case k < 8 && mode != 0:
		return "twin"
	case k < 8:
		return "prebits"
	}
	return ""
}

func allInstForms() []form {
	fs := InstForms()
	for _, mn := range GrammarOpcodes() {
		fs = append(fs, form{Mn: mn, Class: "noparam"})
	}
	return fs
}

var propC01 = &Prop[InstCase]{
	ID:   "C01",
	Rule: "one instruction statement (catalogue form x registers x boundary/uniform immediates) under BITS none/16/32, alone or in a context (behind an out-of-reach Jcc = second assembly round; as the twin of the same text under the other mode; before the first directive of a program that later switches to 32 bits); the quick tier also enumerates a reduced grid (every form x both modes x every boundary immediate / memory shape / absolute address, one register per register slot); non-trivial = accepted without diagnostic and non-empty output; distinct by (mode setting, rendered statement)",
	Gen: func(t *rapid.T) InstCase {
		fs := allInstForms()
		// stratify: 1/8 of the cases are no-operand mnemonics
		var f form
		if rapid.IntRange(0, 7).Draw(t, "noparam") == 0 {
			ops := GrammarOpcodes()
			f = form{Mn: ops[rapid.IntRange(0, len(ops)-1).Draw(t, "mn")], Class: "noparam"}
		} else {
			ins := InstForms()
			f = ins[rapid.IntRange(0, len(ins)-1).Draw(t, "form")]
		}
		_ = fs
		mode := rapid.SampledFrom([]int{0, 16, 32}).Draw(t, "mode")
		ic := InstCase{Mode: mode, St: drawForm(t, f), Cls: f.Class}
		ic.Ctx = drawCtx(t, mode)
		return ic
	},
	Check: checkC01,
	Enum: func(tier string, yield func(InstCase)) bool {
		if tier == "quick" {
			// reduced grid: every form under both modes, the full domain of its last non-register slot (boundary
			// immediates, memory shapes, absolute addresses), one register per register slot (rotating)
			k := 0
			for _, f := range allInstForms() {
				for _, mode := range []int{16, 32} {
					enumFormReduced(f, &k, func(st sem.Stmt) { yield(InstCase{Mode: mode, St: st, Cls: f.Class}) })
				}
			}
			return false
		}
		for _, f := range allInstForms() {
			for _, mode := range []int{0, 16, 32} {
				enumForm(f, func(s sem.Stmt) { yield(InstCase{Mode: mode, St: s, Cls: f.Class}) })
			}
		}
		return true
	},
}

func TestC01(t *testing.T) { Run(t, propC01) }
