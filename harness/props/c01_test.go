package props

import (
	"fmt"
	"testing"

	"github.com/HobbyOSs/gosk/verifharness/asm"
	"github.com/HobbyOSs/gosk/verifharness/sem"
	"pgregory.net/rapid"
)

// InstCase: one instruction statement under a BITS setting (0 = no directive).
type InstCase struct {
	Mode int      `json:"mode"`
	St   sem.Stmt `json:"st"`
	Cls  string   `json:"cls,omitempty"`
	// Ctx "widen": the statement follows a 16-bit branch that does not fit rel8, so gosk assembles
	// the program twice (branch widening) - state left by the first round must not leak into the second
	Ctx string `json:"ctx,omitempty"`
}

const widenPrefix = "\tJNE zzwide\n\tRESB 200\nzzwide:\n"

func (c InstCase) Source() string {
	if c.Ctx == "widen" {
		return sem.Header(c.Mode) + widenPrefix + "\t" + c.St.Render() + "\n"
	}
	return sem.Header(c.Mode) + c.St.Render() + "\n"
}

// prefix mnemonics written as a statement of their own: the one byte the
// manual assigns.
var prefixBytes = map[string]byte{
	"REP": 0xf3, "REPE": 0xf3, "REPZ": 0xf3, "REPNE": 0xf2, "REPNZ": 0xf2, "LOCK": 0xf0,
	"ES": 0x26, "CS": 0x2e, "SS": 0x36, "DS": 0x3e, "FS": 0x64, "GS": 0x65,
}

// size-less spellings that may decode at 16 bits or at the mode default
var sizeless = map[string]string{"PUSHA": "PUSHAD", "POPA": "POPAD", "PUSHF": "PUSHFD", "POPF": "POPFD", "IRET": "IRETD"}

// compareNoOperand judges a statement consisting of a mnemonic alone.
// noref=true: the reference decoder has no such operation (case leaves C01).
func compareNoOperand(mn string, mode int, out []byte) (m *sem.Mismatch, noref bool) {
	if b, ok := prefixBytes[mn]; ok {
		if len(out) == 1 && out[0] == b {
			return nil, false
		}
		return &sem.Mismatch{Kind: "prefixbyte", Detail: fmt.Sprintf("prefix mnemonic %s is byte %02x, emitted % x", mn, b, out)}, false
	}
	if !X86asmKnows(mn) {
		return nil, true
	}
	inst, mis := sem.Decode1(out, mode)
	if mis != nil {
		return mis, false
	}
	want, got := sem.CanonOp(mn), sem.CanonOp(inst.Op.String())
	if want == got {
		return nil, false
	}
	// only the size-less spelling itself (PUSHA, not PUSHAW) may follow the mode default
	if alt, ok := sizeless[mn]; ok && got == alt && mode == 32 {
		return nil, false
	}
	return &sem.Mismatch{Kind: "op", Detail: fmt.Sprintf("wrote %s, bytes % x decode as %s in %d-bit mode", mn, out, inst.Op, mode)}, false
}

func checkC01(c InstCase) Verdict { return checkInst("C01", c) }

// checkInst: accepted without diagnostic => decodes to exactly the statement written.
func checkInst(pid string, c InstCase) Verdict {
	mode := sem.ModeOf(c.Mode)
	r := asm.Assemble(c.Source())
	base := asm.Baseline(sem.Header(c.Mode))
	v := Verdict{Class: c.Cls, Key: fmt.Sprintf("%d|%s|%s", c.Mode, c.Ctx, c.St.Render())}
	if asm.Diagnosed(r, base) {
		v.Skip = "diagnosed"
		if r.Panic != "" {
			v.Skip = "panic(see C13)"
		}
		return v
	}
	if c.Ctx == "widen" {
		// strip the bytes of the prefix (assembled alone, cached)
		pre := asm.Baseline(sem.Header(c.Mode) + widenPrefix)
		if len(pre.Out) == 0 || len(r.Out) < len(pre.Out) || string(r.Out[:len(pre.Out)]) != string(pre.Out) {
			v.Fail = fmt.Sprintf("%q after a widened branch: the bytes of the branch and its reservation changed (% x ...)", c.St.Render(), head(r.Out, 8))
			v.Sig = pid + "|ctx-prefix"
			return v
		}
		r.Out = r.Out[len(pre.Out):]
		st.Classes["ctx:widen"]++
	}
	var m *sem.Mismatch
	if len(c.St.Ops) == 0 && c.St.Mn != "RET" {
		var noref bool
		m, noref = compareNoOperand(c.St.Mn, mode, r.Out)
		if noref {
			v.Skip = "no reference operation in decoder"
			return v
		}
	} else {
		m = sem.Compare(c.St, mode, r.Out)
	}
	if m != nil {
		v.Fail = fmt.Sprintf("%q (BITS %d) assembled silently to % x — %s", c.St.Render(), mode, r.Out, m)
		v.Sig = fmt.Sprintf(pid+"|cls=%s|mode=%d|kind=%s|st=%s|out=%x", c.Cls, mode, m.Kind, c.St.Render(), r.Out)
		return v
	}
	v.NonTrivial = len(r.Out) > 0
	v.Sample = map[string]any{"mode": mode, "stmt": c.St.Render(), "bytes": fmt.Sprintf("% x", r.Out)}
	return v
}

func allInstForms() []form {
	fs := InstForms()
	for _, mn := range GrammarOpcodes() {
		fs = append(fs, form{Mn: mn, Class: "noparam"})
	}
	return fs
}

var propC01 = &Prop[InstCase]{
	ID:   "C01",
	Rule: "one instruction statement (catalogue form x registers x boundary/uniform immediates) under BITS none/16/32; non-trivial = accepted without diagnostic and non-empty output; distinct by (mode setting, rendered statement)",
	Gen: func(t *rapid.T) InstCase {
		fs := allInstForms()
		// stratify: 1/8 of the cases are no-operand mnemonics
		var f form
		if rapid.IntRange(0, 7).Draw(t, "noparam") == 0 {
			ops := GrammarOpcodes()
			f = form{Mn: ops[rapid.IntRange(0, len(ops)-1).Draw(t, "mn")], Class: "noparam"}
		} else {
			ins := InstForms()
			f = ins[rapid.IntRange(0, len(ins)-1).Draw(t, "form")]
		}
		_ = fs
		mode := rapid.SampledFrom([]int{0, 16, 32}).Draw(t, "mode")
		ic := InstCase{Mode: mode, St: drawForm(t, f), Cls: f.Class}
		if rapid.IntRange(0, 5).Draw(t, "ctx") == 0 {
			ic.Ctx = "widen"
		}
		return ic
	},
	Check: checkC01,
	Enum: func(tier string, yield func(InstCase)) bool {
		for _, f := range allInstForms() {
			for _, mode := range []int{0, 16, 32} {
				enumForm(f, func(s sem.Stmt) { yield(InstCase{Mode: mode, St: s, Cls: f.Class}) })
			}
		}
		return true
	},
}

func TestC01(t *testing.T) { Run(t, propC01) }
