package props

import (
	"bytes"
	"debug/pe"
	"fmt"
	"os"
	"os/exec"
	"path/filepath"
	"sort"
	"strings"
	"testing"

	"github.com/HobbyOSs/gosk/verifharness/asm"
	"github.com/HobbyOSs/gosk/verifharness/coff"
	"pgregory.net/rapid"
)

// ---------------------------------------------------------------------------
// C08 / C09 — WCOFF output.

type CoffLabel struct {
	Name string `json:"name"`
	Pos  int    `json:"pos"` // placed before statement Pos (len(Stmts) = at the end)
	Ser  int    `json:"ser"`
}

type CoffCase struct {
	HasFile  bool        `json:"hasfile"`
	File     string      `json:"file"`
	Instrset bool        `json:"instrset"`
	Section  bool        `json:"section"`
	Before   [][]string  `json:"before"` // GLOBAL statements before the code
	After    [][]string  `json:"after"`  // GLOBAL statements after the code
	Externs  []string    `json:"externs"`
	Labels   []CoffLabel `json:"labels"`
	Stmts    []string    `json:"stmts"`
	// EndLabels: labels after the last byte of the program (no marker follows them: their offset is the size of .text)
	EndLabels []string `json:"endlabels,omitempty"`
	// Order of the header directives: 0 FORMAT INSTRSET BITS FILE (the usual one), 1 FILE FORMAT INSTRSET BITS,
	// 2 FORMAT FILE INSTRSET BITS, 3 INSTRSET FORMAT BITS FILE
	Order int `json:"order,omitempty"`
	// Bits16: the program is 16-bit code (the usual objects are 32-bit)
	Bits16 bool `json:"bits16,omitempty"`
	// NoBits: no [BITS] directive at all (16-bit by default; only together with Bits16)
	NoBits bool `json:"nobits,omitempty"`
	// SectionAt > 0: the [SECTION .text] directive is written in front of statement SectionAt-1 instead of
	// in front of all code
	SectionAt int `json:"sectionat,omitempty"`
}

func (c *CoffCase) source(format bool) string {
	var sb strings.Builder
	fm, is, bits, file := "", "", "[BITS 32]\n", ""
	if c.Bits16 {
		bits = "[BITS 16]\n"
		if c.NoBits {
			bits = ""
		}
	}
	if format {
		fm = "[FORMAT \"WCOFF\"]\n"
	}
	if c.Instrset {
		is = "[INSTRSET \"i486p\"]\n"
	}
	if c.HasFile {
		file = fmt.Sprintf("[FILE \"%s\"]\n", c.File)
	}
	switch c.Order {
	case 1:
		sb.WriteString(file + fm + is + bits)
	case 2:
		sb.WriteString(fm + file + is + bits)
	case 3:
		sb.WriteString(is + fm + bits + file)
	case 4:
		sb.WriteString(bits + fm + is + file)
	default:
		sb.WriteString(fm + is + bits + file)
	}
	for _, g := range c.Before {
		fmt.Fprintf(&sb, "\tGLOBAL\t%s\n", strings.Join(g, ", "))
	}
	if len(c.Externs) > 0 {
		fmt.Fprintf(&sb, "\tEXTERN\t%s\n", strings.Join(c.Externs, ", "))
	}
	if c.Section && c.SectionAt == 0 {
		sb.WriteString("[SECTION .text]\n")
	}
	for i := 0; i <= len(c.Stmts); i++ {
		if c.Section && c.SectionAt > 0 && i == c.SectionAt-1 {
			sb.WriteString("[SECTION .text]\n")
		}
		for _, l := range c.Labels {
			if l.Pos == i {
				fmt.Fprintf(&sb, "%s:\n\t%s\n", l.Name, markerText(l.Ser))
			}
		}
		if i < len(c.Stmts) {
			fmt.Fprintf(&sb, "\t%s\n", c.Stmts[i])
		}
	}
	for _, l := range c.EndLabels {
		fmt.Fprintf(&sb, "%s:\n", l)
	}
	for _, g := range c.After {
		fmt.Fprintf(&sb, "\tGLOBAL\t%s\n", strings.Join(g, ", "))
	}
	return sb.String()
}

func (c *CoffCase) globals() []string {
	seen := map[string]bool{}
	var out []string
	for _, l := range append(append([][]string{}, c.Before...), c.After...) {
		for _, n := range l {
			if !seen[n] {
				seen[n] = true
				out = append(out, n)
			}
		}
	}
	return out
}

// assembleCoff runs both forms and returns (object bytes, flat bytes, skip reason).
func assembleCoff(c *CoffCase) (obj, flat []byte, skip string) {
	src := c.source(true)
	// every other object is written over an existing, longer file (its old tail must not survive)
	var r *asm.Result
	if hash64(src)%2 == 0 {
		path := filepath.Join(asm.TmpDir(), "coff-prefilled.obj")
		os.WriteFile(path, bytes.Repeat([]byte{0xcc, 0x00, 0xff, 0x4c}, 40000), 0o644)
		r = asm.AssembleTo(src, path, true)
	} else {
		r = asm.Assemble(src)
	}
	// baseline: directives only (they print content-free warnings); GLOBAL of an undefined name warns by design
	bc := *c
	bc.Stmts, bc.Labels, bc.Before, bc.After, bc.Externs, bc.EndLabels = nil, nil, nil, nil, nil, nil
	bc.SectionAt = 0 // (the directive would otherwise sit behind statements the baseline does not have)
	base := asm.Baseline(bc.source(true))
	var extra []string
	for _, d := range asm.ExtraDiags(r, base) {
		if strings.Contains(d, "declared but not found in symbol table") {
			continue // an undefined GLOBAL is recorded as an undefined symbol; the warning is by design
		}
		if asm.IsWarning(d) {
			continue // a warning does not take a program out of C08/C09's domain: the object must still be right
		}
		extra = append(extra, d)
	}
	if r.Failed() || len(extra) > 0 {
		rr := *r
		rr.Diags = extra
		return nil, nil, "diagnosed: " + asm.DiagClass(&rr, nil)
	}
	rf := asm.Assemble(c.source(false))
	if rf.Failed() {
		return nil, nil, "flat form failed"
	}
	// the same source once more in the same process: an object writer that remembers anything from the
	// previous object (string-table offsets, symbol lists) shows here
	r2 := asm.Assemble(src)
	if !r2.Failed() && !bytes.Equal(r2.Out, r.Out) {
		coffRepeatDiffers[src] = true
	}
	return r.Out, rf.Out, ""
}

// sources whose second assembly in this process gave a different object (filled by assembleCoff)
var coffRepeatDiffers = map[string]bool{}

func checkC08(c CoffCase) Verdict {
	src := c.source(true)
	v := Verdict{Key: src}
	obj, _, skip := assembleCoff(&c)
	if skip != "" {
		v.Skip = skip
		return v
	}
	fail := func(kind, f string, a ...any) Verdict {
		v.Fail = fmt.Sprintf(f, a...) + fmt.Sprintf("\n--- source ---\n%s--- object (%d bytes), first 64: % x", src, len(obj), head(obj, 64))
		v.Sig = "C08|" + kind
		return v
	}
	if coffRepeatDiffers[src] {
		delete(coffRepeatDiffers, src)
		return fail("repeat", "assembling the same source a second time in the same process gives a different object")
	}
	f, err := coff.Parse(obj)
	if err != nil {
		return fail("structure", "strict COFF reader: %v", err)
	}
	if len(f.Sections) != 3 || f.Sections[0].Name != ".text" || f.Sections[1].Name != ".data" || f.Sections[2].Name != ".bss" {
		var names []string
		for _, s := range f.Sections {
			names = append(names, s.Name)
		}
		return fail("sections", "section headers are %v, want .text/.data/.bss", names)
	}
	// independent reader: debug/pe
	pf, err := pe.NewFile(bytes.NewReader(obj))
	if err != nil {
		return fail("debugpe", "debug/pe rejects the file: %v", err)
	}
	if int(pf.FileHeader.NumberOfSymbols) != f.Records || len(pf.COFFSymbols) != f.Records {
		return fail("debugpe", "debug/pe sees %d symbol records, header says %d", len(pf.COFFSymbols), f.Records)
	}
	var penames []string
	for i := 0; i < len(pf.COFFSymbols); i++ {
		s := pf.COFFSymbols[i]
		n, err := s.FullName(pf.StringTable)
		if err != nil {
			return fail("debugpe", "debug/pe cannot resolve the name of record %d: %v", i, err)
		}
		penames = append(penames, n)
		i += int(s.NumberOfAuxSymbols)
	}
	var mynames []string
	for _, s := range f.Symbols {
		mynames = append(mynames, s.Name)
	}
	if strings.Join(penames, "\x00") != strings.Join(mynames, "\x00") {
		return fail("debugpe", "debug/pe lists symbols %q, strict reader %q", penames, mynames)
	}
	// every declared name must be present
	have := map[string]int{}
	for _, s := range f.Symbols {
		have[s.Name]++
	}
	for _, g := range c.globals() {
		if have[g] == 0 {
			return fail("missing", "GLOBAL %s is not in the symbol table %q", g, mynames)
		}
	}
	if os.Getenv("VERIF_TIER") == "thorough" && hash64(src)%20 == 0 {
		if msg := objdumpCheck(obj, mynames); msg != "" {
			return fail("objdump", "%s", msg)
		}
		st.Extra["objdump_checked"] = intExtra("objdump_checked") + 1
	}
	long := false
	for _, g := range c.globals() {
		if len(g) > 8 {
			long = true
		}
	}
	v.NonTrivial = len(c.globals()) >= 1 && (long || len(f.Sections[0].Data) > 0)
	v.Class = fmt.Sprintf("globals=%s,text=%s", bucket(len(c.globals())), bucket(len(f.Sections[0].Data)))
	v.Sample = map[string]any{"source": src, "object_bytes": len(obj), "symbols": mynames}
	return v
}

func intExtra(k string) int {
	if v, ok := st.Extra[k].(int); ok {
		return v
	}
	return 0
}

func bucket(n int) string {
	switch {
	case n == 0:
		return "0"
	case n <= 2:
		return "1-2"
	case n <= 10:
		return "3-10"
	case n <= 100:
		return "11-100"
	case n <= 5000:
		return "101-5000"
	}
	return ">5000"
}

// objdumpCheck lets binutils read the object (second independent reader).
func objdumpCheck(obj []byte, names []string) string {
	path := filepath.Join(asm.TmpDir(), "objdump.obj")
	if err := os.WriteFile(path, obj, 0o644); err != nil {
		return ""
	}
	defer os.Remove(path)
	out, err := exec.Command("objdump", "-h", "-t", path).CombinedOutput()
	if err != nil {
		return fmt.Sprintf("objdump -h -t fails: %v: %s", err, head(out, 300))
	}
	txt := string(out)
	for _, n := range names {
		if n == ".file" {
			continue
		}
		if !strings.Contains(txt, n) {
			return fmt.Sprintf("objdump does not list symbol %q", n)
		}
	}
	return ""
}

// ---- C09

func checkC09(c CoffCase) Verdict {
	src := c.source(true)
	v := Verdict{Key: src}
	obj, flat, skip := assembleCoff(&c)
	if skip != "" {
		v.Skip = skip
		return v
	}
	fail := func(kind, f string, a ...any) Verdict {
		v.Fail = fmt.Sprintf(f, a...) + fmt.Sprintf("\n--- source ---\n%s", src)
		v.Sig = "C09|" + kind
		return v
	}
	if coffRepeatDiffers[src] {
		delete(coffRepeatDiffers, src)
		return fail("repeat", "assembling the same source a second time in the same process gives a different object (names and values must not depend on what was assembled before)")
	}
	f, err := coff.Parse(obj)
	if err != nil {
		v.Skip = "structurally invalid (C08 decides)"
		return v
	}
	if len(f.Sections) < 1 || f.Sections[0].Name != ".text" {
		v.Skip = "no .text (C08 decides)"
		return v
	}
	text := f.Sections[0].Data
	if !bytes.Equal(text, flat) {
		return fail("text", ".text raw data (%d bytes) differs from the flat binary (%d bytes) of the same source without the FORMAT line", len(text), len(flat))
	}
	// label addresses from the markers in the flat binary
	addr := map[string]uint32{}
	for _, l := range c.Labels {
		mb := markerBytes(l.Ser)
		if bytes.Count(flat, mb) != 1 {
			v.Skip = "marker collision"
			return v
		}
		addr[l.Name] = uint32(bytes.Index(flat, mb))
	}
	for _, l := range c.EndLabels {
		addr[l] = uint32(len(flat))
	}
	// .file first, with the FILE name in its auxiliary record
	if len(f.Symbols) < 4 || f.Symbols[0].Name != ".file" || f.Symbols[0].StorageClass != 103 || len(f.Symbols[0].Aux) != 1 {
		return fail("file", "first symbol is not a .file record with one auxiliary record")
	}
	wantAux := make([]byte, 18)
	copy(wantAux, c.fileName())
	if !bytes.Equal(f.Symbols[0].Aux[0], wantAux) {
		return fail("file", ".file auxiliary record is %q, want %q (the [FILE] name zero-padded, first 18 bytes)", f.Symbols[0].Aux[0], wantAux)
	}
	for i, n := range []string{".text", ".data", ".bss"} {
		s := f.Symbols[1+i]
		if s.Name != n || int(s.SectionNumber) != i+1 || s.StorageClass != 3 {
			return fail("secsym", "symbol %d is %q (section %d, class %d), want section symbol %s", 1+i, s.Name, s.SectionNumber, s.StorageClass, n)
		}
	}
	user := f.Symbols[4:]
	count := map[string]int{}
	for _, s := range user {
		count[s.Name]++
	}
	globals := c.globals()
	for _, g := range globals {
		a, defined := addr[g]
		if count[g] != 1 && !(count[g] == 2 && inList(c.Externs, g)) {
			return fail("count", "GLOBAL %s appears %d times in the symbol table", g, count[g])
		}
		for _, s := range user {
			if s.Name != g {
				continue
			}
			if len(g) > 8 != s.LongName {
				return fail("longname", "symbol %s (%d bytes): stored %s", g, len(g), map[bool]string{true: "in the string table", false: "inline"}[s.LongName])
			}
			if defined {
				if s.SectionNumber == 0 && inList(c.Externs, g) {
					continue
				}
				if s.StorageClass != 2 || s.SectionNumber != 1 || s.Value != a {
					return fail("value", "GLOBAL %s: class %d section %d value %#x, want external, section 1, value %#x (its marker offset)", g, s.StorageClass, s.SectionNumber, s.Value, a)
				}
			} else if s.SectionNumber != 0 || s.StorageClass != 2 {
				return fail("undef", "undefined GLOBAL %s: class %d section %d, want an undefined external", g, s.StorageClass, s.SectionNumber)
			}
		}
	}
	// no symbol that was not declared
	declared := map[string]bool{}
	for _, g := range globals {
		declared[g] = true
	}
	for _, e := range c.Externs {
		declared[e] = true
	}
	for _, s := range user {
		if !declared[s.Name] {
			return fail("extra", "symbol %q was never declared GLOBAL or EXTERN", s.Name)
		}
	}
	// order: defined by non-decreasing value, undefined last
	seenUndef := false
	var last uint32
	for _, s := range user {
		if s.SectionNumber == 0 {
			seenUndef = true
			continue
		}
		if seenUndef {
			return fail("order", "defined symbol %s comes after an undefined one", s.Name)
		}
		if s.Value < last {
			return fail("order", "symbol %s (value %#x) comes after a symbol with value %#x", s.Name, s.Value, last)
		}
		last = s.Value
	}
	// non-trivial: >= 2 GLOBAL labels at different addresses not declared in address order, or a long name
	var vals []uint32
	long := false
	for _, g := range globals {
		if a, ok := addr[g]; ok {
			vals = append(vals, a)
		}
		if len(g) > 8 {
			long = true
		}
	}
	unsorted := !sort.SliceIsSorted(vals, func(i, j int) bool { return vals[i] < vals[j] })
	v.NonTrivial = (len(vals) >= 2 && unsorted) || long
	v.Class = fmt.Sprintf("defined=%s", bucket(len(vals)))
	v.Sample = map[string]any{"source": src, "text_bytes": len(text)}
	return v
}

func (c *CoffCase) fileName() string {
	if c.HasFile {
		return c.File
	}
	return ""
}

func inList(l []string, s string) bool {
	for _, x := range l {
		if x == s {
			return true
		}
	}
	return false
}

// ---- generator

// coffLongNames: while set, every generated name is stretched to 33..40 bytes (one object in eight holds long
// names only: the string table then outgrows any buffer sized from a "typical" name length)
var coffLongNames bool

func genCoffName(t *rapid.T, label string, used map[string]bool, family []string) string {
	for i := 0; ; i++ {
		var name string
		if coffLongNames {
			name = "_" + rapid.StringMatching(`[a-z0-9_]{32,39}`).Draw(t, label+"_long")
			if !used[name] {
				used[name] = true
				return name
			}
			continue
		}
		switch k := rapid.IntRange(0, 5).Draw(t, label+"_k"); {
		case k == 0 && len(family) > 0:
			// share a prefix with an existing name
			base := family[rapid.IntRange(0, len(family)-1).Draw(t, label+"_b")]
			name = base + rapid.StringMatching(`[a-z0-9_]{1,3}`).Draw(t, label+"_s")
		case k == 1:
			n := rapid.SampledFrom([]int{7, 8, 9, 17, 18, 19, 40}).Draw(t, label+"_len")
			name = "_" + rapid.StringMatching(fmt.Sprintf(`[a-z0-9_]{%d}`, n-1)).Draw(t, label+"_v")
		default:
			name = "_" + rapid.StringMatching(`[a-zA-Z0-9_]{0,14}`).Draw(t, label+"_v")
		}
		if len(name) > 40 {
			name = name[:40]
		}
		if !used[name] {
			used[name] = true
			return name
		}
	}
}

func genCoffCase(t *rapid.T) CoffCase {
	c := CoffCase{
		HasFile:  rapid.IntRange(0, 3).Draw(t, "hasfile") != 0,
		Instrset: rapid.Bool().Draw(t, "instrset"),
		Section:  rapid.Bool().Draw(t, "section"),
	}
	if c.HasFile {
		c.File = rapid.StringMatching(`[a-zA-Z0-9_.-]{0,40}`).Draw(t, "file")
	}
	used := map[string]bool{}
	var names []string
	coffLongNames = rapid.IntRange(0, 7).Draw(t, "longnames") == 5
	defer func() { coffLongNames = false }()
	nl := rapid.IntRange(0, 8).Draw(t, "nlabels")
	if rapid.IntRange(0, 15).Draw(t, "many") == 0 {
		nl = rapid.IntRange(20, 45).Draw(t, "nlabels2")
	}
	ns := rapid.IntRange(0, 12).Draw(t, "nstmts")
	c.Bits16 = rapid.IntRange(0, 4).Draw(t, "bits16") == 0
	smode := 32
	if c.Bits16 {
		smode = 16
	}
	for i := 0; i < nl; i++ {
		nm := genCoffName(t, fmt.Sprintf("ln%d", i), used, names)
		names = append(names, nm)
		c.Labels = append(c.Labels, CoffLabel{Name: nm, Pos: rapid.IntRange(0, ns).Draw(t, fmt.Sprintf("lp%d", i)), Ser: i + 1})
	}
	for i := 0; i < ns; i++ {
		if rapid.IntRange(0, 30).Draw(t, "big") == 0 {
			c.Stmts = append(c.Stmts, fmt.Sprintf("RESB %d", rapid.SampledFrom([]int{1000, 40000, 66000}).Draw(t, "bigsz")))
			continue
		}
		// branches and calls to the program's labels (their encoding depends on the distance)
		if len(names) > 0 && rapid.IntRange(0, 5).Draw(t, "branch") == 0 {
			c.Stmts = append(c.Stmts, rapid.SampledFrom([]string{"JMP", "CALL", "JE", "JNZ", "JB"}).Draw(t, "brmn")+" "+names[rapid.IntRange(0, len(names)-1).Draw(t, "brto")])
			if rapid.Bool().Draw(t, "brgap") {
				c.Stmts = append(c.Stmts, fmt.Sprintf("RESB %d", rapid.SampledFrom([]int{100, 126, 130, 200}).Draw(t, "brgapn")))
			}
			continue
		}
		text, _ := genPlainStmt(t, smode, true)
		c.Stmts = append(c.Stmts, text)
	}
	// labels at the very end of the program (their value is the size of .text)
	for i := rapid.SampledFrom([]int{0, 0, 1, 1, 2}).Draw(t, "nend"); i > 0; i-- {
		nm := genCoffName(t, fmt.Sprintf("end%d", i), used, names)
		names = append(names, nm)
		c.EndLabels = append(c.EndLabels, nm)
	}
	c.Order = rapid.SampledFrom([]int{0, 0, 0, 1, 2, 3, 4}).Draw(t, "hdrorder")
	c.NoBits = c.Bits16 && rapid.Bool().Draw(t, "nobits")
	if c.Section && ns > 0 && rapid.IntRange(0, 2).Draw(t, "sectionlate") == 0 {
		c.SectionAt = 1 + rapid.IntRange(0, ns).Draw(t, "sectionat")
	}
	// GLOBAL declarations: a random sub-multiset of the labels in random order, plus undefined names
	pool := append([]string{}, names...)
	nu := rapid.IntRange(0, 2).Draw(t, "nundef")
	for i := 0; i < nu; i++ {
		pool = append(pool, genCoffName(t, fmt.Sprintf("un%d", i), used, names))
	}
	var decl []string
	for _, n := range pool {
		switch rapid.IntRange(0, 4).Draw(t, "declk") {
		case 0:
		case 1:
			decl = append(decl, n, n) // duplicate declaration
		default:
			decl = append(decl, n)
		}
	}
	decl = rapid.Permutation(decl).Draw(t, "declorder")
	for len(decl) > 0 {
		k := rapid.IntRange(1, 4).Draw(t, "gl")
		if k > len(decl) {
			k = len(decl)
		}
		if rapid.Bool().Draw(t, "before") {
			c.Before = append(c.Before, decl[:k])
		} else {
			c.After = append(c.After, decl[:k])
		}
		decl = decl[k:]
	}
	ne := rapid.IntRange(0, 2).Draw(t, "nextern")
	for i := 0; i < ne; i++ {
		c.Externs = append(c.Externs, genCoffName(t, fmt.Sprintf("ex%d", i), used, names))
	}
	return c
}

var propC08 = &Prop[CoffCase]{
	ID:     "C08",
	Rule:   "WCOFF programs (32-bit, one in five 16-bit; 0..12 statements incl. branches and calls to their labels and occasional 1k/40k/66k reservations) x 0..45 labels (some of them after the last byte of the program) x five orders of the header directives (also [BITS] before [FORMAT], or no [BITS] at all) x [SECTION .text] before or in the middle of the code x GLOBAL statements declaring any sub-multiset of them (duplicates, undefined names, names of length 1..40 incl. exactly 8/9 and 18/19, shared prefixes; one object in eight with names of 33..40 bytes only) before and after the code x EXTERN x [FILE] of length 0..40 or absent; oracle: the same source assembled twice in one process gives the same object; strict COFF reader (every offset/count against the file size, aux records counted, string-table length, NUL-terminated long names) + debug/pe + (thorough, sampled) objdump; non-trivial = >= 1 GLOBAL and (a long name or non-empty .text); distinct by source text",
	Assume: []string{"debug/pe and binutils objdump as independent COFF readers"},
	Gen:    genCoffCase,
	Check:  checkC08,
}

var propC09 = &Prop[CoffCase]{
	ID:    "C09",
	Rule:  "same generator as C08; oracle: the same source assembled twice in one process gives the same object; .text raw data = flat binary of the same source without the FORMAT line (second gosk run), every defined GLOBAL exactly once as external symbol of section 1 with value = marker offset of its label, long names through the string table, no undeclared symbol, defined symbols in non-decreasing address order with undefined ones last, .file auxiliary record = [FILE] name zero-padded (first 18 bytes); non-trivial = >= 2 GLOBAL labels at different addresses not declared in address order, or a long name; distinct by source text",
	Gen:   genCoffCase,
	Check: checkC09,
}

func TestC08(t *testing.T) { Run(t, propC08) }
func TestC09(t *testing.T) { Run(t, propC09) }
