package props

import (
	"bytes"
	"encoding/binary"
	"fmt"
	"strings"
	"testing"

	"github.com/HobbyOSs/gosk/verifharness/asm"
	"github.com/HobbyOSs/gosk/verifharness/sem"
	"github.com/HobbyOSs/gosk/verifharness/x86asm"
	"pgregory.net/rapid"
)

// ---------------------------------------------------------------------------
// C07 — nothing is dropped or mis-assembled silently.
//
// One statement (any grammar mnemonic x an operand list of 0..3 operands of
// any kind) is sandwiched between correct statements:
//
//	header ; qdef: marker0 ; MOV AX,1 ; marker1 ; <statement> ; qafter: marker2 ; DD qafter
//
// If the run is not diagnosed, the statement must be represented: >= 1 byte
// (unless a non-emitting directive), bytes that decode completely to the
// written instruction (or equal the data reference), a label after it that
// is in sync, and no reference to an undefined symbol.

// operand kinds of the sweep
var shapeKinds = []string{"r8", "r16", "r32", "sreg", "creg", "imm", "immbig", "immneg", "mem", "m8", "m16", "m32", "abs", "label", "undef", "str", "far", "dollar", "fwdequ", "undefg", "mlabel", "mundef", "badmem", "farundef"}

type ShapeOp struct {
	Kind string      `json:"k"`
	Op   sem.Operand `json:"op"`
}

type ShapeCase struct {
	Mode int       `json:"mode"`
	Mn   string    `json:"mn"`
	Ops  []ShapeOp `json:"ops"`
	Org  int64     `json:"org"`
}

func shapeOperand(kind string, variant int) sem.Operand {
	pick := func(l []string) string { return l[variant%len(l)] }
	switch kind {
	case "r8":
		return sem.R(pick(sem.Regs8))
	case "r16":
		return sem.R(pick(sem.Regs16))
	case "r32":
		return sem.R(pick(sem.Regs32))
	case "sreg":
		return sem.R(pick(sem.Sregs))
	case "creg":
		return sem.R(pick(sem.Cregs))
	case "imm":
		return immOp([]int64{5, 1, 0x10, 0x7f}[variant%4], variant%2)
	case "immbig":
		return immOp([]int64{0x12345, 0x8000, 0x100, 0xffff}[variant%4], 1)
	case "immneg":
		return immOp([]int64{-3, -1, -128, -129}[variant%4], 0)
	case "mem":
		return sem.M([]sem.Mem{{Base: "BX"}, {Base: "SI", Disp: 4, HasDisp: true}, {Base: "EBX"}, {Base: "EAX", Index: "ECX", Scale: 2}}[variant%4])
	case "m8":
		return sem.M(sem.Mem{Size: "BYTE", Base: pick([]string{"BX", "SI", "EBX"})})
	case "m16":
		return sem.M(sem.Mem{Size: "WORD", Base: pick([]string{"BX", "DI", "ESI"})})
	case "m32":
		return sem.M(sem.Mem{Size: "DWORD", Base: pick([]string{"BX", "BP", "EDX"}), Disp: 8, HasDisp: true})
	case "abs":
		return sem.M(sem.Mem{Disp: 0x0ff0, HasDisp: true})
	case "label":
		return sem.L("qdef")
	case "undef":
		return sem.L(pick([]string{"qundefined", "_nosuch"}))
	case "farundef":
		// a far pointer whose offset (or selector) is an undefined symbol
		return sem.Raw(pick([]string{"2*8:qundefined", "DWORD 8:_nosuch", "8:qundefined", "qundefined:0", "DWORD qundefined:0x1b"}))
	case "badmem":
		// register combinations no addressing form exists for: whatever bytes come out cannot designate them
		return sem.M([]sem.Mem{{Base: "SI", Index: "DI"}, {Base: "BX", Index: "BP"}, {Base: "SI", Index: "DI", Disp: 2, HasDisp: true}, {Base: "AX"}, {Base: "CX", Disp: 2, HasDisp: true},
			{Base: "BX", Index: "CX"}, {Base: "SP"}, {Index: "EAX", Scale: 3}, {Index: "ESP", Scale: 2}, {Base: "BX", Index: "EAX"}, {Base: "EBX", Index: "SI"}, {Base: "DX"},
			{Base: "DI", Index: "BP", Disp: 1, HasDisp: true}, {Base: "EBX", Index: "ESP", Scale: 2}, {Base: "BP", Index: "SP"}, {Base: "EAX", Index: "BX", Scale: 2}}[variant%16])
	case "mlabel":
		// a defined label as the address of a memory operand
		return sem.M(sem.Mem{Size: pick([]string{"", "BYTE", "WORD", "DWORD"}), Text: "qdef"})
	case "mundef":
		// an undefined symbol as the address of a memory operand
		return sem.M(sem.Mem{Size: pick([]string{"", "WORD", "BYTE", "DWORD"}), Text: pick([]string{"qundefined", "_nosuch"})})
	case "undefg":
		// a symbol that is declared GLOBAL but defined nowhere (in a flat binary nothing can resolve it later)
		return sem.L("_qglobonly")
	case "fwdequ":
		// a name that is defined only later, and only by an EQU whose value is label-relative
		return sem.L("qfwdequ")
	case "str":
		return sem.Str(pick([]string{"ab", "x", "hello, world"}))
	case "far":
		return sem.Operand{Kind: sem.KFar, Seg: 8, Imm: 0x1b, Text: "0x1b"}
	case "dollar":
		return sem.Operand{Kind: sem.KLabel, Text: "$"}
	}
	panic("bad shape kind " + kind)
}

func (c *ShapeCase) stmtText() string {
	if len(c.Ops) == 0 {
		return c.Mn
	}
	parts := make([]string, len(c.Ops))
	for i, o := range c.Ops {
		parts[i] = o.Op.Render()
	}
	return c.Mn + " " + strings.Join(parts, ",")
}

func (c *ShapeCase) header() string {
	s := ""
	if c.Org >= 0 {
		s += fmt.Sprintf("\tORG 0x%x\n", c.Org)
	}
	return s + sem.Header(c.Mode)
}

func (c *ShapeCase) source(withStmt bool) string {
	var sb strings.Builder
	sb.WriteString(c.header())
	for _, o := range c.Ops {
		if o.Kind == "undefg" {
			sb.WriteString("\tGLOBAL _qglobonly\n") // also in the baseline: the declaration alone prints its own warning
			break
		}
	}
	fmt.Fprintf(&sb, "qdef:\n\t%s\n\tMOV AX,1\n\t%s\n", markerText(1), markerText(2))
	if withStmt {
		fmt.Fprintf(&sb, "\t%s\n", c.stmtText())
	}
	// the trailing forward branch makes the statement under test be followed by a first reference
	// to a not yet defined label (pass 1 keeps state about such references)
	fmt.Fprintf(&sb, "qafter:\n\t%s\n\tDD qafter\n\tJE qfwd\n\tNOP\nqfwd:\n\tHLT\n", markerText(3))
	for _, o := range c.Ops {
		if o.Kind == "fwdequ" && withStmt {
			sb.WriteString("qfwdequ\tEQU\tqdef+1\n")
			break
		}
	}
	return sb.String()
}

func (c *ShapeCase) kinds() string {
	ks := make([]string, len(c.Ops))
	for i, o := range c.Ops {
		ks[i] = o.Kind
	}
	return strings.Join(ks, ",")
}

// mnemonics that are assembler directives, not instructions
var dataDirs = map[string]int{"DB": 1, "DW": 2, "DD": 4}
var nonEmitting = map[string]bool{}
var excludedMn = map[string]string{
	"ORG": "ORG resets the location counter by definition; a label after it is not comparable",
	"END": "END is a grammar keyword",
}

func checkC07(c ShapeCase) Verdict {
	mode := sem.ModeOf(c.Mode)
	stmt := c.stmtText()
	cls := "shape:" + c.kinds()
	if len(c.Ops) == 0 {
		cls = "noparam"
	}
	v := Verdict{Key: fmt.Sprintf("%d|%d|%s", c.Mode, c.Org, stmt), Class: fmt.Sprintf("arity%d", len(c.Ops))}
	if why, bad := excludedMn[c.Mn]; bad {
		v.Skip = "not generated: " + why
		return v
	}
	src := c.source(true)
	r := asm.Assemble(src)
	base := asm.Baseline(c.source(false))
	if asm.Diagnosed(r, base) {
		v.Skip = "diagnosed"
		if r.Panic != "" {
			v.Skip = "panic (C13 decides)"
		}
		st.Classes["diagnosed"]++
		return v
	}
	st.Classes["accepted-silently"]++
	out := r.Out
	org := c.Org
	if org < 0 {
		org = 0
	}
	fail := func(kind, f string, a ...any) Verdict {
		var sb []byte
		if o2, o3 := bytes.Index(out, markerBytes(2)), bytes.Index(out, markerBytes(3)); o2 >= 0 && o3 >= o2+6 {
			sb = out[o2+6 : o3]
		}
		v.Fail = fmt.Sprintf("%q (BITS %d) finished without any diagnostic, but %s", stmt, mode, fmt.Sprintf(f, a...)) + fmt.Sprintf(" [statement bytes: % x]", head(sb, 16))
		v.Sig = fmt.Sprintf("C07|cls=%s|mode=%d|kind=%s|st=%s|out=%x", cls, mode, kind, stmt, head(sb, 16))
		return v
	}
	for _, ser := range []int{1, 2, 3} {
		if bytes.Count(out, markerBytes(ser)) != 1 {
			return fail("marker", "marker %d occurs %d times in the output", ser, bytes.Count(out, markerBytes(ser)))
		}
	}
	o1, o2, o3 := bytes.Index(out, markerBytes(1)), bytes.Index(out, markerBytes(2)), bytes.Index(out, markerBytes(3))
	if !(o1 < o2 && o2 < o3) {
		return fail("order", "the statements around it were reordered")
	}
	sb := out[o2+6 : o3]
	// (4) undefined symbols must be diagnosed
	for _, o := range c.Ops {
		if o.Kind == "undef" || o.Kind == "undefg" {
			return fail("undef", "it refers to the undefined symbol %s", o.Op.Text)
		}
		if o.Kind == "farundef" {
			return fail("undef", "it refers to an undefined symbol inside the far pointer %s", o.Op.Text)
		}
		if o.Kind == "mundef" {
			return fail("undef", "it refers to the undefined symbol %s (as an address)", o.Op.Mem.Text)
		}
	}
	// (3) the label after it is in sync
	if o3+10 > len(out) {
		return fail("trunc", "the output ends before the trailing DD")
	}
	if got := int64(binary.LittleEndian.Uint32(out[o3+6:])); got != (org+int64(o3))&0xffffffff {
		return fail("label", "the label after it has value %#x but really is at %#x", got, org+int64(o3))
	}
	defAddr := org + int64(o1)
	here := org + int64(o2) + 6
	// data directives
	if w, isData := dataDirs[c.Mn]; isData {
		var want []byte
		for _, o := range c.Ops {
			var val int64
			switch o.Kind {
			case "imm", "immbig", "immneg":
				val = o.Op.Imm
			case "label":
				val = defAddr
			case "fwdequ":
				val = defAddr + 1
			case "dollar":
				val = here
			case "str":
				if c.Mn == "DB" {
					want = append(want, []byte(o.Op.Text)...)
					continue
				}
				return fail("data-operand", "a string operand was accepted by %s", c.Mn)
			default:
				return fail("data-operand", "a %s operand was accepted by %s", o.Kind, c.Mn)
			}
			for i := 0; i < w; i++ {
				want = append(want, byte(uint64(val)>>(8*uint(i))))
			}
		}
		if len(c.Ops) == 0 {
			return fail("arity", "%s without operands was accepted", c.Mn)
		}
		if !bytes.Equal(sb, want) {
			return fail("data", "its bytes are % x, the operand values are % x", head(sb, 16), head(want, 16))
		}
		v.NonTrivial = true
		return v
	}
	constOf := func(o ShapeOp) (int64, bool) {
		switch o.Kind {
		case "imm", "immbig", "immneg":
			return o.Op.Imm, true
		case "label":
			return defAddr, true
		case "fwdequ":
			return defAddr + 1, true
		case "dollar":
			return here, true
		}
		return 0, false
	}
	switch c.Mn {
	case "RESB":
		if len(c.Ops) == 1 {
			if n, ok := constOf(c.Ops[0]); ok && n >= 0 {
				if int64(len(sb)) != n || bytes.Count(sb, []byte{0}) != len(sb) {
					return fail("data", "it reserved %d bytes instead of %d", len(sb), n)
				}
				v.NonTrivial = true
				return v
			}
		}
		return fail("data-operand", "RESB accepted the operand list (%s)", c.kinds())
	case "ALIGNB":
		if len(c.Ops) == 1 {
			if n, ok := constOf(c.Ops[0]); ok && n > 0 {
				pad := (n - here%n) % n
				if int64(len(sb)) != pad {
					return fail("data", "ALIGNB %d at %#x padded %d bytes, expected %d", n, here, len(sb), pad)
				}
				v.NonTrivial = true
				return v
			}
		}
		return fail("data-operand", "ALIGNB accepted the operand list (%s)", c.kinds())
	}
	// (1) an instruction must produce bytes
	if len(sb) == 0 {
		return fail("empty", "no byte was emitted for it")
	}
	// (2) the bytes are the instruction that was written
	if len(c.Ops) == 0 {
		m, noref := compareNoOperand(c.Mn, mode, sb)
		if noref {
			v.NonTrivial = true
			st.Classes["noref"]++
			return v
		}
		if m != nil {
			return fail(m.Kind, "%s", m.Detail)
		}
		v.NonTrivial = true
		return v
	}
	if !X86asmKnows(c.Mn) {
		// no reference for this mnemonic: only presence and label sync can be judged
		st.Classes["noref"]++
		v.NonTrivial = true
		return v
	}
	// build the intended statement; label and $ operands are immediates with known values
	stx := sem.Stmt{Mn: c.Mn}
	branch := c.Mn == "CALL" || c.Mn == "JMP" || in(jccSet, c.Mn)
	for _, o := range c.Ops {
		switch o.Kind {
		case "label":
			stx.Ops = append(stx.Ops, sem.IT(defAddr, "qdef"))
		case "fwdequ":
			stx.Ops = append(stx.Ops, sem.IT(defAddr+1, "qfwdequ"))
		case "dollar":
			stx.Ops = append(stx.Ops, sem.IT(here, "$"))
		case "str":
			return fail("str-operand", "a string operand was accepted by %s", c.Mn)
		case "mlabel":
			m := *o.Op.Mem
			m.Disp, m.HasDisp, m.Text = defAddr, true, ""
			if mode == 16 {
				m.Disp &= 0xffff
			}
			stx.Ops = append(stx.Ops, sem.M(m))
		default:
			stx.Ops = append(stx.Ops, o.Op)
		}
	}
	inst, mis := sem.Decode1(sb, mode)
	if mis != nil {
		return fail(mis.Kind, "%s", mis.Detail)
	}
	if branch && len(c.Ops) == 1 && c.Ops[0].Kind != "far" {
		// relative branch: compare the target
		if sem.CanonOp(inst.Op.String()) != sem.CanonOp(c.Mn) {
			return fail("op", "its bytes decode as %q", x86asm.IntelSyntax(inst, 0, nil))
		}
		rel, ok := inst.Args[0].(x86asm.Rel)
		k := c.Ops[0].Kind
		if !ok {
			// an indirect branch through a register or memory operand is a legitimate encoding of "JMP r/m"
			if k == "imm" || k == "immbig" || k == "immneg" || k == "label" || k == "dollar" || k == "fwdequ" {
				return fail("form", "its bytes decode as %q, not as a relative branch", x86asm.IntelSyntax(inst, 0, nil))
			}
			if k != "mlabel" {
				stx.Ops = []sem.Operand{c.Ops[0].Op}
			}
			if m := sem.CompareInst(stx, mode, inst); m != nil {
				return fail(m.Kind, "%s", m.Detail)
			}
			v.NonTrivial = true
			return v
		}
		var want int64
		switch k {
		case "imm", "immbig", "immneg":
			want = c.Ops[0].Op.Imm
		case "label":
			want = defAddr
		case "fwdequ":
			want = defAddr + 1
		case "dollar":
			want = here
		default:
			return fail("form", "a %s operand was encoded as the relative branch %q", k, x86asm.IntelSyntax(inst, 0, nil))
		}
		got := here + int64(inst.Len) + int64(rel)
		mask := int64(0xffffffff)
		if inst.DataSize == 16 {
			mask = 0xffff
		}
		if got&mask != want&mask {
			return fail("target", "it transfers to %#x instead of %#x", got&mask, want&mask)
		}
		v.NonTrivial = true
		return v
	}
	if m := sem.CompareInst(stx, mode, inst); m != nil {
		return fail(m.Kind, "%s", m.Detail)
	}
	v.NonTrivial = true
	v.Sample = map[string]any{"mode": mode, "stmt": stmt, "bytes": fmt.Sprintf("% x", sb)}
	return v
}

func in(l []string, s string) bool {
	for _, x := range l {
		if x == s {
			return true
		}
	}
	return false
}

func mkShape(mode int, mn string, kinds []string, variant int) ShapeCase {
	c := ShapeCase{Mode: mode, Mn: mn, Org: -1}
	for i, k := range kinds {
		c.Ops = append(c.Ops, ShapeOp{Kind: k, Op: shapeOperand(k, variant+i)})
	}
	return c
}

// mnemonics gosk implements (the interesting half of the sweep: the others are refused wholesale)
var c07Implemented = []string{"MOV", "ADD", "SUB", "CMP", "AND", "OR", "XOR", "SHL", "SHR", "SAR", "NOT", "IMUL", "IN", "OUT", "PUSH", "POP", "INT", "RET", "LGDT", "JMP", "JE", "CALL", "DB", "DW", "DD", "RESB", "ALIGNB", "HLT", "NOP", "ADC", "INC", "MUL"}

var propC07 = &Prop[ShapeCase]{
	ID:   "C07",
	Rule: "every mnemonic of the grammar's Opcode list x operand lists of 0..3 operands of every kind (r8/r16/r32, Sreg, CRn, small/large/negative immediate, typed/untyped/absolute memory, defined label, undefined symbol, symbol declared GLOBAL but never defined, defined label / undefined symbol as the address of a memory operand, register combinations no addressing form exists for, far pointers over an undefined symbol, string, far pointer, $), sandwiched between correct statements with a marked label after; oracle: not diagnosed => bytes present, decode completely to the written instruction (or equal the data reference), label after in sync, no undefined symbol, operand count as the mnemonic requires; non-trivial = accepted without diagnostic (the interesting half; diagnosed cases are counted apart); distinct by (mode, statement)",
	Gen: func(t *rapid.T) ShapeCase {
		ops := GrammarOpcodes()
		var mn string
		if rapid.Bool().Draw(t, "impl") {
			mn = rapid.SampledFrom(c07Implemented).Draw(t, "mnimpl")
		} else {
			mn = ops[rapid.IntRange(0, len(ops)-1).Draw(t, "mn")]
		}
		n := rapid.IntRange(0, 3).Draw(t, "arity")
		kinds := make([]string, n)
		for i := range kinds {
			kinds[i] = rapid.SampledFrom(shapeKinds).Draw(t, fmt.Sprintf("k%d", i))
		}
		c := mkShape(rapid.SampledFrom([]int{0, 16, 32}).Draw(t, "mode"), mn, kinds, rapid.IntRange(0, 11).Draw(t, "variant"))
		// every operand picks its variant on its own (register number, value, shape)
		for i := range c.Ops {
			c.Ops[i].Op = shapeOperand(c.Ops[i].Kind, rapid.IntRange(0, 47).Draw(t, fmt.Sprintf("v%d", i)))
		}
		c.Org = rapid.SampledFrom([]int64{-1, 0x7c00}).Draw(t, "org")
		return c
	},
	Check: checkC07,
	Enum: func(tier string, yield func(ShapeCase)) bool {
		ops := GrammarOpcodes()
		for _, mn := range ops {
			for _, mode := range []int{0, 32} {
				yield(mkShape(mode, mn, nil, 0))
				for vi, k := range shapeKinds {
					yield(mkShape(mode, mn, []string{k}, vi))
				}
				if in(c07Implemented, mn) {
					// every register of every class as the only operand, and the three-operand shapes
					for _, rk := range []string{"r8", "r16", "r32", "sreg", "creg"} {
						for vv := 0; vv < 8; vv++ {
							yield(mkShape(mode, mn, []string{rk}, vv))
						}
					}
					for vv := 0; vv < 8; vv++ {
						for _, ks := range [][]string{{"r16", "r16", "imm"}, {"r32", "r32", "imm"}, {"r16", "m16", "imm"}, {"r16", "imm", "imm"}, {"r16", "r16", "r16"}, {"r32", "r32", "immbig"}} {
							c3 := mkShape(mode, mn, ks, vv)
							c3.Ops[1].Op = shapeOperand(ks[1], vv+3) // not the same register twice
							yield(c3)
						}
					}
					for vv := 0; vv < 5; vv++ {
						yield(mkShape(mode, mn, []string{"farundef"}, vv))
					}
					// memory operands of every questionable kind, in every variant, in the usual operand shapes
					for _, mk := range []string{"badmem", "mundef", "mlabel", "mem"} {
						nv := map[string]int{"badmem": 16, "mundef": 8, "mlabel": 4, "mem": 4}[mk]
						for vv := 0; vv < nv; vv++ {
							one := mkShape(mode, mn, []string{mk}, vv)
							yield(one)
							for _, other := range []string{"r16", "imm"} {
								a := mkShape(mode, mn, []string{other, mk}, 0)
								a.Ops[1].Op = shapeOperand(mk, vv)
								a.Ops[0].Op = shapeOperand(other, vv/2)
								yield(a)
								b := mkShape(mode, mn, []string{mk, other}, 0)
								b.Ops[0].Op = shapeOperand(mk, vv)
								b.Ops[1].Op = shapeOperand(other, vv/2)
								yield(b)
							}
						}
					}
				}
				if tier == "thorough" {
					for i, k1 := range shapeKinds {
						for j, k2 := range shapeKinds {
							yield(mkShape(mode, mn, []string{k1, k2}, i+j))
						}
					}
				}
			}
		}
		return tier == "thorough"
	},
}

func TestC07(t *testing.T) { Run(t, propC07) }
