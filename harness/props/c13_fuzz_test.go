package props

import (
	"os"
	"path/filepath"
	"testing"
)

// FuzzC13 is the coverage-guided target of C13's thorough tier (native
// go test -fuzz over raw bytes, all cores). The semantic oracle is inside
// the target: checkC13 (no panic / fatal / hang, confirmed by the binary).
// Go's fuzzer cannot be seeded; the saved failing input is the reproducible unit.
func FuzzC13(f *testing.F) {
	dir := os.Getenv("VERIF_DIR")
	if dir == "" {
		dir = "/verif"
	}
	files, _ := filepath.Glob(filepath.Join(dir, "corpus", "*.nas"))
	for _, fn := range files {
		if b, err := os.ReadFile(fn); err == nil && len(b) < 1500 {
			f.Add(b)
		}
	}
	for _, s := range []string{
		"\tMOV AX,1\n", "lbl:\n\tJMP lbl\n", "\tDB \"a;b\",1,2\n", "X EQU 5\n\tDW X*2+1\n", "[FORMAT \"WCOFF\"]\n[BITS 32]\n\tGLOBAL _f\n_f:\n\tRET\n",
		"\tMOV EAX,[EBX+ECX*4+8]\n", "\tJMP DWORD 2*8:0x1b\n", "\tRESB 0x10-$\n", "\tALIGNB 16\n", "\tINT 0x80\n",
		// hostile constants
		"\tDD 0x7fffffffffffffff\n", "\tDD 99999999999999999999\n", "\tJMP {{.x}}\n", "\tMOV AX,{{.\n", "\tMOV AX,[[[\n", "\tDB \"\n", "$:\n", "\tMOV AX,$$\n", "X EQU X\n\tDB X\n", "\tPUSH '\n", "\tIN AL,(((((((((1)))))))))\n",
	} {
		f.Add([]byte(s))
	}
	f.Fuzz(func(t *testing.T, data []byte) {
		if len(data) > 4096 {
			return
		}
		c := CrashCase{Src: string(data), Kind: "fuzz"}
		v := checkC13(c)
		if v.Fail != "" {
			writeFail(propC13, c, v.Fail, v.Sig)
			t.Fatalf("VIOLATION C13: %s [sig %s]", v.Fail, v.Sig)
		}
	})
}
