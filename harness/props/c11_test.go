package props

import (
	"bytes"
	"fmt"
	"strings"
	"testing"

	"github.com/HobbyOSs/gosk/verifharness/asm"
	"github.com/HobbyOSs/gosk/verifharness/sem"
	"pgregory.net/rapid"
)

// ---------------------------------------------------------------------------
// C11 — EQU names are transparent abbreviations:
// the program using names == the program with every name replaced textually
// by its parenthesised definition; definitions alone emit nothing.

type EquDef struct {
	Name string `json:"name"`
	Body string `json:"body"` // may use earlier names
	Val  int64  `json:"val"`
	Dep  int    `json:"dep"` // chain depth (1 = literal body)
}

type EquCase struct {
	Mode  int      `json:"mode"`
	Defs  []EquDef `json:"defs"`
	Stmts []string `json:"stmts"` // statements using the names
	Sites []string `json:"sites"` // site class per statement (for statistics)
	Late  bool     `json:"late"`  // definitions interleaved just before first use instead of all at the top
	// Perm: the order in which the definitions are written at the top (nil = dependency order); any other order
	// makes some definition refer to a name that is defined further down
	Perm []int `json:"perm,omitempty"`
	// Label: a label defined in front of the statements (some definition is an alias of it)
	Label string `json:"label,omitempty"`
}

func (c *EquCase) defsText() string {
	var sb strings.Builder
	if len(c.Perm) == len(c.Defs) && !c.Late {
		for _, i := range c.Perm {
			fmt.Fprintf(&sb, "%s\tEQU\t%s\n", c.Defs[i].Name, c.Defs[i].Body)
		}
		return sb.String()
	}
	for _, d := range c.Defs {
		fmt.Fprintf(&sb, "%s\tEQU\t%s\n", d.Name, d.Body)
	}
	return sb.String()
}

func (c *EquCase) abstracted() string {
	var sb strings.Builder
	sb.WriteString(sem.Header(c.Mode))
	if !c.Late {
		sb.WriteString(c.defsText())
		sb.WriteString(c.labelLine())
		for _, s := range c.Stmts {
			sb.WriteString("\t" + s + "\n")
		}
		return sb.String()
	}
	// each definition right before the first statement that (transitively) needs it
	done := map[string]bool{}
	var need func(text string)
	need = func(text string) {
		for _, d := range c.Defs {
			if !done[d.Name] && containsToken(text, d.Name) {
				need(d.Body)
				done[d.Name] = true
				fmt.Fprintf(&sb, "%s\tEQU\t%s\n", d.Name, d.Body)
			}
		}
	}
	sb.WriteString(c.labelLine())
	for _, s := range c.Stmts {
		need(s)
		sb.WriteString("\t" + s + "\n")
	}
	return sb.String()
}

func (c *EquCase) labelLine() string {
	if c.Label == "" {
		return ""
	}
	return "\tDB 1,2,3\n" + c.Label + ":\n"
}

func containsToken(text, name string) bool {
	return renameSource(text, map[string]string{name: "\x00"}) != text
}

// inline replaces every name by its parenthesised, fully inlined definition.
func (c *EquCase) inline(text string) string {
	full := map[string]string{}
	for _, d := range c.Defs { // definitions only use earlier names
		full[d.Name] = "(" + renameSource(d.Body, full) + ")"
	}
	return renameSource(text, full)
}

func (c *EquCase) inlined() string {
	var sb strings.Builder
	sb.WriteString(sem.Header(c.Mode))
	sb.WriteString(c.labelLine())
	for _, s := range c.Stmts {
		sb.WriteString("\t" + c.inline(s) + "\n")
	}
	return sb.String()
}

func checkC11(c EquCase) Verdict {
	sa, si := c.abstracted(), c.inlined()
	v := Verdict{Key: sa}
	base := asm.Baseline(sem.Header(c.Mode))
	ra, ri := asm.Assemble(sa), asm.Assemble(si)
	da, clsa := diagnosedC05(ra, base)
	di, clsi := diagnosedC05(ri, base)
	if da && di {
		v.Skip = "both diagnosed: " + clsi
		return v
	}
	fail := func(kind, f string, a ...any) Verdict {
		v.Fail = fmt.Sprintf(f, a...) + fmt.Sprintf("\n--- with EQU names ---\n%s--- names replaced by their parenthesised definitions ---\n%s", sa, si)
		v.Sig = "C11|" + kind
		return v
	}
	if da != di {
		return fail("acceptance", "only one of the two forms is diagnosed (with names: %q, inlined: %q)", clsa, clsi)
	}
	if !bytes.Equal(ra.Out, ri.Out) {
		at := 0
		for at < len(ra.Out) && at < len(ri.Out) && ra.Out[at] == ri.Out[at] {
			at++
		}
		return fail("bytes", "outputs differ at offset %d: with names % x, inlined % x (lengths %d / %d)", at, clip(ra.Out, at), clip(ri.Out, at), len(ra.Out), len(ri.Out))
	}
	// definitions alone emit nothing
	rd := asm.Assemble(sem.Header(c.Mode) + c.defsText())
	if !rd.Failed() && len(rd.Out) != 0 {
		return fail("defs-emit", "the EQU definitions alone emit %d bytes: % x", len(rd.Out), head(rd.Out, 16))
	}
	deep, boundary := false, false
	for _, d := range c.Defs {
		if d.Dep >= 2 {
			deep = true
		}
		for _, b := range []int64{127, 128, -128, -129, 255, 256, 0x7fff, 0x8000} {
			if d.Val == b {
				boundary = true
			}
		}
	}
	v.NonTrivial = deep || boundary
	for _, s := range c.Sites {
		st.Classes["site:"+s]++
	}
	if c.Perm != nil && !c.Late {
		st.Classes["defs-permuted"]++
	}
	v.Sample = map[string]any{"with_names": sa, "inlined": si}
	return v
}

type equSite struct {
	cls  string
	tmpl string // %s = expression
	lo   int64
	hi   int64
	mode int // 0 = any, 16, 32: register widths that need the mode
}

var equSites = []equSite{
	{"imm16", "MOV AX,%s", -0x8000, 0xffff, 0},
	{"imm16", "ADD BX,%s", -0x8000, 0xffff, 0},
	{"imm16", "CMP SI,%s", -0x8000, 0xffff, 0},
	{"imm32", "MOV ECX,%s", -0x80000000, 0xffffffff, 0},
	{"imm32", "AND EDX,%s", -0x80000000, 0xffffffff, 0},
	{"imm8", "MOV AL,%s", -128, 255, 0},
	{"imm8", "SHL AX,%s", 0, 31, 0},
	{"imm8", "INT %s", 0, 255, 0},
	{"imm8", "OUT %s,AL", 0, 255, 0},
	{"memimm", "MOV WORD [0x0ff0],%s", -0x8000, 0xffff, 0},
	{"memimm", "ADD DWORD [EBX],%s", -0x80000000, 0x7fffffff, 0},
	{"disp16", "MOV AX,[BX+%s]", 0, 0x7fff, 0},
	{"disp16", "MOV [SI+%s],CL", 0, 0x7fff, 0},
	{"disp32", "MOV EAX,[EBX+%s]", 0, 0x7fffffff, 0},
	{"disp32", "MOV ECX,[EBX+ESI*2+%s]", 0, 0x7fffffff, 0},
	{"abs", "MOV AL,[%s]", 0, 0xffff, 0},
	{"db", "DB %s,0x55", -128, 255, 0},
	{"dw", "DW %s", -0x8000, 0xffff, 0},
	{"dd", "DD %s", -1 << 62, 1 << 62, 0},
	{"dd2", "DD 1,%s,2", -1 << 62, 1 << 62, 0},
	{"resb", "RESB %s", 0, 600, 0},
	{"push", "PUSH %s", -0x8000, 0xffff, 0},
}

var propC11 = &Prop[EquCase]{
	ID:   "C11",
	Rule: "1..5 EQU definitions forming chains up to depth 4 (literal bodies around the imm8/imm16/disp8 boundaries, bodies over earlier names with + - * / %, names from the adversarial identifier family) used in 1..6 statements at every kind of site (8/16/32-bit immediates, shift counts, INT, ports, memory-immediate, 16/32-bit displacements, absolute address, DB/DW/DD lists, RESB, PUSH), as a bare name or inside a larger expression; one case in four also defines a name that stands for a register and uses it as an operand and inside memory operands; one in five a name that stands for a label; definitions at the top (in dependency order or permuted, so that bodies name constants defined further down) or just before first use; oracle: byte-identical output of the program with names and the program with every name replaced textually by its parenthesised definition, same acceptance, and the definitions alone emit nothing; non-trivial = a chain of depth >= 2 or a value on an encoding boundary; distinct by source text",
	Gen: func(t *rapid.T) EquCase {
		c := EquCase{Mode: rapid.SampledFrom([]int{0, 16, 32}).Draw(t, "mode"), Late: rapid.Bool().Draw(t, "late")}
		nd := rapid.IntRange(1, 5).Draw(t, "ndefs")
		var names []string
		taken := map[string]bool{}
		for len(names) < nd {
			cand := rapid.SampledFrom(adversarial).Draw(t, "nm")
			if rapid.Bool().Draw(t, "nmrand") {
				cand = rapid.StringMatching(`[a-z_][a-zA-Z0-9_]{0,8}`).Draw(t, "nmr")
			}
			if safeName(cand) && !taken[cand] {
				taken[cand] = true
				names = append(names, cand)
			}
		}
		lits := []int64{0, 1, 2, 3, 5, 8, 16, 100, 126, 127, 128, 129, 255, 256, 0x7ffe, 0x7fff, 0x8000, 0xffff, 0x10000, -1, -2, -128, -129, 0x7fffffff, 0x80000000, 0xfffffff0, 0xffffffff, 0x100000000, -0x80000000}
		for i, nm := range names {
			d := EquDef{Name: nm}
			if i == 0 || rapid.IntRange(0, 3).Draw(t, "lit") == 0 {
				v := rapid.SampledFrom(lits).Draw(t, "dv")
				d.Val, d.Body, d.Dep = v, renderImm(v, rapid.IntRange(0, 1).Draw(t, "ds")), 1
			} else {
				p := c.Defs[rapid.IntRange(0, i-1).Draw(t, "prev")]
				k := rapid.SampledFrom([]int64{1, 2, 3, 4, 7, 100, 127, 128, 256}).Draw(t, "k")
				switch rapid.IntRange(0, 10).Draw(t, "form") {
				case 7:
					d.Body, d.Val = fmt.Sprintf("%s*6/4", p.Name), p.Val*6/4
				case 8:
					d.Body, d.Val = fmt.Sprintf("%s/2*4", p.Name), p.Val/2*4
				case 9:
					d.Body, d.Val = fmt.Sprintf("100-%s*10/4", p.Name), 100-p.Val*10/4
				case 10:
					d.Body, d.Val = fmt.Sprintf("%d-(%s+1)", k, p.Name), k-(p.Val+1)
				case 0:
					d.Body, d.Val = fmt.Sprintf("%s+%d", p.Name, k), p.Val+k
				case 1:
					d.Body, d.Val = fmt.Sprintf("%s - %d", p.Name, k), p.Val-k
				case 2:
					d.Body, d.Val = fmt.Sprintf("%s*%d", p.Name, k), p.Val*k
				case 3:
					d.Body, d.Val = fmt.Sprintf("%d-%s", k, p.Name), k-p.Val
				case 4:
					d.Body, d.Val = fmt.Sprintf("(%s+%d)*2", p.Name, k), (p.Val+k)*2
				case 5:
					d.Body, d.Val = fmt.Sprintf("%s/%d", p.Name, k), p.Val/k
				default:
					q := c.Defs[rapid.IntRange(0, i-1).Draw(t, "prev2")]
					d.Body, d.Val = fmt.Sprintf("%s+%s", p.Name, q.Name), p.Val+q.Val
					if q.Dep > p.Dep {
						p = q
					}
				}
				d.Dep = p.Dep + 1
			}
			c.Defs = append(c.Defs, d)
		}
		// one case in four also defines a name that stands for a register and uses it where registers go
		var regUses []string
		if rapid.IntRange(0, 3).Draw(t, "regalias") == 0 {
			nm := "qreg" + rapid.StringMatching(`[a-z0-9_]{0,4}`).Draw(t, "regnm")
			if !taken[nm] {
				type ra struct {
					reg  string
					uses []string
				}
				a := rapid.SampledFrom([]ra{
					{"BX", []string{"MOV AX,[%s]", "MOV AX,[%s+2]", "MOV CL,[%s+SI]", "MOV [%s+DI+4],AX", "MOV AX,%s", "ADD %s,1", "MOV %s,CX", "PUSH %s", "ADD WORD [%s],7"}},
					{"SI", []string{"MOV AL,[%s]", "MOV AX,[%s+0x100]", "MOV AX,[BX+%s]", "MOV %s,DI", "CMP %s,5", "POP %s"}},
					{"BP", []string{"MOV AX,[%s]", "MOV AX,[%s+DI]", "MOV [%s-2],CX", "MOV %s,SP"}},
					{"AL", []string{"MOV %s,5", "MOV [BX],%s", "ADD %s,CL", "IN %s,0x60"}},
					{"ECX", []string{"MOV EAX,[EBX+%s*4]", "MOV EAX,[%s+8]", "MOV EAX,[%s]", "MOV %s,1", "MOV EDX,[%s*2+0x100]", "ADD %s,EAX", "SHL %s,3"}},
					{"EBP", []string{"MOV EAX,[%s]", "MOV EAX,[%s+ESI*8]", "MOV [%s-4],EDX", "PUSH %s"}},
					{"DS", []string{"MOV AX,%s", "MOV %s,AX", "PUSH %s"}},
				}).Draw(t, "regaliasr")
				c.Defs = append(c.Defs, EquDef{Name: nm, Body: a.reg, Dep: 1})
				for k := rapid.IntRange(1, 3).Draw(t, "nreguses"); k > 0; k-- {
					regUses = append(regUses, fmt.Sprintf(rapid.SampledFrom(a.uses).Draw(t, "reguse"), nm))
				}
			}
		}
		// one case in five: a name that stands for a label (mixed-case label names), used as an immediate, in data
		// and as a branch target
		if rapid.IntRange(0, 4).Draw(t, "labalias") == 0 {
			lab := rapid.SampledFrom([]string{"qmsg", "qLoop", "qgdtTable", "q_fin", "QTOP", "qaX"}).Draw(t, "labname")
			nm := rapid.SampledFrom([]string{"QTEXT", "qagain", "qTbl", "q_al"}).Draw(t, "labalname")
			if !taken[nm] && !taken[lab] {
				taken[nm], taken[lab] = true, true
				c.Label = lab
				c.Defs = append(c.Defs, EquDef{Name: nm, Body: lab, Dep: 1})
				for k := rapid.IntRange(1, 3).Draw(t, "nlabuses"); k > 0; k-- {
					regUses = append(regUses, fmt.Sprintf(rapid.SampledFrom([]string{"MOV AX,%s", "DW %s", "JMP %s", "MOV SI,%s", "CALL %s", "JE %s"}).Draw(t, "labuse"), nm))
				}
			}
		}
		if !c.Late && len(c.Defs) >= 2 && rapid.IntRange(0, 2).Draw(t, "permute") == 0 {
			idx := make([]int, len(c.Defs))
			for i := range idx {
				idx[i] = i
			}
			c.Perm = rapid.Permutation(idx).Draw(t, "perm")
		}
		var numeric []EquDef
		for _, d := range c.Defs {
			if sem.RegBits(d.Body) == 0 && d.Body != c.Label {
				numeric = append(numeric, d)
			}
		}
		// a table naming many constants in one statement
		if rapid.IntRange(0, 3).Draw(t, "table") == 0 {
			dir := rapid.SampledFrom([]string{"DB", "DW", "DD"}).Draw(t, "tdir")
			var items []string
			for k := rapid.IntRange(6, 14).Draw(t, "tn"); k > 0; k-- {
				items = append(items, numeric[rapid.IntRange(0, len(numeric)-1).Draw(t, "titem")].Name)
			}
			c.Stmts = append(c.Stmts, dir+" "+strings.Join(items, ","))
			c.Sites = append(c.Sites, "table")
		}
		ns := rapid.IntRange(1, 6).Draw(t, "nstmts")
		for i := 0; i < ns; i++ {
			if len(regUses) > 0 && rapid.IntRange(0, 2).Draw(t, "placereguse") == 0 {
				c.Stmts = append(c.Stmts, regUses[0])
				c.Sites = append(c.Sites, "regalias")
				regUses = regUses[1:]
			}
			d := numeric[rapid.IntRange(0, len(numeric)-1).Draw(t, "use")]
			expr, val := d.Name, d.Val
			switch rapid.IntRange(0, 5).Draw(t, "wrap") {
			case 0:
				k := rapid.Int64Range(1, 9).Draw(t, "wk")
				expr, val = fmt.Sprintf("%s+%d", d.Name, k), d.Val+k
			case 1:
				k := rapid.Int64Range(2, 4).Draw(t, "wk")
				expr, val = fmt.Sprintf("%d*%s", k, d.Name), k*d.Val
			case 2:
				e := numeric[rapid.IntRange(0, len(numeric)-1).Draw(t, "use2")]
				expr, val = fmt.Sprintf("%s-%s", d.Name, e.Name), d.Val-e.Val
			}
			// choose a site whose range admits the value (construction, not rejection)
			var ok []equSite
			for _, s := range equSites {
				if val >= s.lo && val <= s.hi {
					ok = append(ok, s)
				}
			}
			s := ok[rapid.IntRange(0, len(ok)-1).Draw(t, "site")]
			c.Stmts = append(c.Stmts, fmt.Sprintf(s.tmpl, expr))
			c.Sites = append(c.Sites, s.cls)
		}
		for _, u := range regUses {
			c.Stmts = append(c.Stmts, u)
			c.Sites = append(c.Sites, "regalias")
		}
		return c
	},
	Check: checkC11,
}

func TestC11(t *testing.T) { Run(t, propC11) }
