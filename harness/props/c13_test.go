package props

import (
	"bytes"
	"context"
	"fmt"
	"math"
	"math/big"
	"os"
	"os/exec"
	"path/filepath"
	"regexp"
	"strings"
	"sync"
	"testing"
	"time"

	"github.com/HobbyOSs/gosk/verifharness/asm"
	"pgregory.net/rapid"
)

// ---------------------------------------------------------------------------
// C13 — no input crashes or hangs the assembler.
//
// In-process target: the exit-free replica of frontend.Exec (asm.AssembleNoExit).
// A panic found there is confirmed through the real binary before it counts.

type CrashCase struct {
	Src  string `json:"src"`
	Kind string `json:"kind"` // mutant | arity | scale
	// scale family parameters (Kind == "scale")
	Family string `json:"family,omitempty"`
}

var hostileToks = []string{"0x7fffffffffffffff", "99999999999999999999", "-9223372036854775808", "0xffffffffffffffff", "0x100000000", "4294967296", "0x80000000", "65536", "{{.", "{{.x}}", "}}", "$", "$$", "..", ".loop", "a$b", "$x", "x.", "@f", "?x", "[", "]", "(", ")", ",", ":", "+", "-", "*", "/", "%", "\"", "'", "\"unterminated", "0x", "0", "1", "256", "-1", "EQU", "GLOBAL", "EXTERN", "BYTE", "WORD", "DWORD", "SHORT", "NEAR", "FAR", "PTR", "ORG", "RESB", "ALIGNB", "TIMES", "END", "DB", "DW", "DD", "INT", "MOV", "JMP", "CALL", "LGDT", "PUSH", "IMUL", "IN", "OUT", "AX", "EAX", "AL", "CR0", "DS", "ES:", "[BX]", "[EAX*9]", "[ESP*2]", "[BX+BP]", "[BITS", "32]", "[FORMAT", "\"WCOFF\"]", "[FILE", "label:", "x:", "\t", ";", "#"}

// (no word boundary after the keyword: gosk reads "RESB2000000000" as RESB 2000000000)
var hostileNumbers = []string{"0", "-1", "255", "256", "65535", "65536", "0x7fffffff", "0x80000000", "2147483648", "-2147483649", "0xffffffff", "0x100000000", "4294967296", "0x200000000", "0xFFFFFFFFFF",
	"0x7fffffffffffffff", "0x8000000000000000", "0xffffffffffffffff", "18446744073709551616", "99999999999999999999", "-9223372036854775808", "-9223372036854775809", "0x", "0x1g", "1e9", "0b101", "017", "1_000", "'A'", "''"}

var outOfRangeReserve = regexp.MustCompile(`(?i)(RESB|RESW|RESD|ALIGNB|TIMES)[^\n]*?(0x[0-9a-f]{7,}|[0-9]{8,})`)

// a RESB or ALIGNB whose only operand is one literal beyond 2^31-1: gosk must refuse it (the location
// counter has 32 bits), so it costs nothing to run
var plainHugeReserve = regexp.MustCompile(`(?i)^\s*(?:[A-Za-z_][A-Za-z0-9_]*:)?\s*(?:RESB|ALIGNB)\s*(0x[0-9a-f]+|[0-9]+)\s*(?:[;#].*)?$`)

// asksForHugeOutput: some line reserves (or may reserve) more than 16 MiB of output that gosk would really produce.
func asksForHugeOutput(src string) bool {
	if !outOfRangeReserve.MatchString(src) {
		return false
	}
	for _, line := range strings.Split(src, "\n") {
		if !outOfRangeReserve.MatchString(line) {
			continue
		}
		m := plainHugeReserve.FindStringSubmatch(line)
		if m == nil {
			return true
		}
		v, ok := new(big.Int).SetString(strings.TrimPrefix(strings.ToLower(m[1]), "0x"), map[bool]int{true: 16, false: 10}[strings.HasPrefix(strings.ToLower(m[1]), "0x")])
		if !ok || v.Cmp(big.NewInt(1<<31-1)) <= 0 {
			return true
		}
	}
	return false
}

var c13LastOnce sync.Once
var c13LastPath string

// recordLast keeps the input about to be run on disk, so that a dying worker
// (runtime fatal error, os.Exit deep inside gosk) leaves its input behind.
func recordLast(src string) {
	c13LastOnce.Do(func() {
		c13LastPath = filepath.Join(asm.TmpDir(), "..", fmt.Sprintf("c13-last-%d.nas", os.Getpid()))
		if d := os.Getenv("VERIF_TMP"); d != "" {
			c13LastPath = filepath.Join(d, fmt.Sprintf("c13-last-%d.nas", os.Getpid()))
		}
	})
	os.WriteFile(c13LastPath, []byte(src), 0o644)
}

// confirmWithBinary re-runs src through the real gosk binary: crash = a Go panic/fatal message or death by a
// signal. A hang is judged by the CPU time the binary burns, never by the wall clock (a loaded machine slows
// everything down): hang = more than cpuLimit seconds of CPU, where cpuLimit = 60 s + 1 s per 2 KB of input (a
// 250 KB program costs about 25 s). If the wall-clock budget (4 x cpuLimit) runs out before that much CPU was
// used, the case is inconclusive.
func confirmWithBinary(src string) (crashed bool, how string) {
	crashed, how, _ = confirmWithBinary3(src)
	return
}

func confirmWithBinary3(src string) (crashed bool, how string, inconclusive bool) {
	if asm.GoskPath() == "" {
		return true, "binary not available for confirmation; in-process result stands", false
	}
	dir := asm.TmpDir()
	in := filepath.Join(dir, "c13-confirm.nas")
	out := filepath.Join(dir, "c13-confirm.bin")
	os.WriteFile(in, []byte(src), 0o644)
	defer os.Remove(in)
	defer os.Remove(out)
	cpuLimit := 60 + float64(len(src))/2048
	ctx, cancel := context.WithTimeout(context.Background(), time.Duration(4*cpuLimit)*time.Second)
	defer cancel()
	cmd := exec.CommandContext(ctx, asm.GoskPath(), in, out)
	cmd.Dir = dir
	var buf bytes.Buffer
	cmd.Stdout, cmd.Stderr = &buf, &buf
	err := cmd.Start()
	if err != nil {
		return false, "binary did not start: " + err.Error(), true
	}
	werr := cmd.Wait()
	cpu := 0.0
	if cmd.ProcessState != nil {
		cpu = (cmd.ProcessState.UserTime() + cmd.ProcessState.SystemTime()).Seconds()
	}
	if ctx.Err() != nil {
		if cpu >= cpuLimit {
			return true, fmt.Sprintf("binary: still running after %.0f s of CPU time (limit for %d bytes of input: %.0f s)", cpu, len(src), cpuLimit), false
		}
		return false, fmt.Sprintf("binary: wall-clock budget used up after only %.0f s of CPU time (machine busy)", cpu), true
	}
	txt := buf.String()
	exit := 0
	if ee, ok := werr.(*exec.ExitError); ok {
		exit = ee.ExitCode()
	}
	if strings.Contains(txt, "panic:") || strings.Contains(txt, "fatal error:") || strings.Contains(txt, "goroutine ") || exit == -1 {
		first := txt
		if i := strings.Index(txt, "panic:"); i >= 0 {
			first = txt[i:]
		} else if i := strings.Index(txt, "fatal error:"); i >= 0 {
			first = txt[i:]
		}
		return true, fmt.Sprintf("binary exits %d: %s", exit, strings.SplitN(first, "\n", 2)[0]), false
	}
	return false, fmt.Sprintf("binary exits %d without a crash", exit), false
}

var hung string

var identWithDollar = regexp.MustCompile(`[A-Za-z0-9_.$]\$|\$[A-Za-z0-9_.$]`)
var quotedOrSection = regexp.MustCompile(`"[^"\n]*"|\[SECTION \.text\]`)

// safeForExec: the text cannot reach an os.Exit inside frontend.Exec. Pass 2 runs operands through
// text/template ("{{.name}}" placeholders for symbols), and a name that is not a plain identifier makes the
// template fail to parse, which Exec answers with os.Exit. The predicate is deliberately blunt: outside
// double-quoted strings and "[SECTION .text]" the text holds no '.', no character a template or an identifier
// could choke on, and no '$' glued to a name. Everything else goes to the exit-free replica.
func safeForExec(src string) bool {
	rest := quotedOrSection.ReplaceAllString(src, "")
	for i := 0; i < len(rest); i++ {
		if rest[i] >= 0x80 {
			return false
		}
	}
	if strings.ContainsAny(rest, ".@?~!^&|<>={}`\\\"'") {
		return false
	}
	return !identWithDollar.MatchString(rest)
}

func panicSite(p string) string {
	// first gosk frame of the stack: stable enough to tell root causes apart
	for _, part := range strings.Split(p, " | ") {
		if strings.Contains(part, "gosk/") {
			f := part
			if i := strings.Index(f, "gosk/"); i >= 0 {
				f = f[i+5:]
			}
			if i := strings.Index(f, "("); i >= 0 {
				f = f[:i]
			}
			return f
		}
	}
	return "unknown"
}

// cpuTime runs the binary on src and returns user+system CPU seconds (ok=false: failed to run / timed out).
func cpuTime(src string) (float64, int, bool) {
	dir := asm.TmpDir()
	in := filepath.Join(dir, "c13-scale.nas")
	out := filepath.Join(dir, "c13-scale.bin")
	os.WriteFile(in, []byte(src), 0o644)
	defer os.Remove(in)
	defer os.Remove(out)
	ctx, cancel := context.WithTimeout(context.Background(), 300*time.Second)
	defer cancel()
	cmd := exec.CommandContext(ctx, asm.GoskPath(), in, out)
	cmd.Stdout, cmd.Stderr = nil, nil
	err := cmd.Run()
	if cmd.ProcessState == nil || ctx.Err() != nil {
		return 0, -1, false
	}
	_ = err
	return (cmd.ProcessState.UserTime() + cmd.ProcessState.SystemTime()).Seconds(), cmd.ProcessState.ExitCode(), true
}

// checkGrowth: CPU time t(n) of the binary must not grow faster than n^2.2
// between consecutive sizes once t >= 0.5 s (re-measured twice before it counts).
func checkGrowth(c CrashCase) Verdict {
	v := Verdict{Key: "growth|" + c.Family, Class: "growth"}
	if asm.GoskPath() == "" {
		v.Skip = "binary not available"
		return v
	}
	sizes := []int{1000, 3000, 10000, 30000}
	if tier() == "thorough" {
		sizes = append(sizes, 100000)
	}
	type pt struct {
		n int
		t float64
	}
	var pts []pt
	for _, n := range sizes {
		if c.Family == "parens" && n > 30000 {
			continue
		}
		t, _, ok := cpuTime(scaledInput(c.Family, n))
		if !ok {
			v.Skip = fmt.Sprintf("time budget hit at n=%d (inconclusive)", n)
			return v
		}
		pts = append(pts, pt{n, t})
	}
	for i := 1; i < len(pts); i++ {
		a, b := pts[i-1], pts[i]
		if b.t < 0.5 || a.t <= 0.02 {
			continue
		}
		expo := math.Log(b.t/a.t) / math.Log(float64(b.n)/float64(a.n))
		for retry := 0; retry < 2 && expo > 2.2; retry++ {
			ta, _, ok1 := cpuTime(scaledInput(c.Family, a.n))
			tb, _, ok2 := cpuTime(scaledInput(c.Family, b.n))
			if !ok1 || !ok2 {
				v.Skip = "time budget hit while re-measuring (inconclusive)"
				return v
			}
			if e := math.Log(tb/ta) / math.Log(float64(b.n)/float64(a.n)); e < expo {
				expo = e
			}
		}
		if expo > 2.2 {
			v.Fail = fmt.Sprintf("CPU time of the '%s' family grows like n^%.2f between n=%d (%.2fs) and n=%d (%.2fs)", c.Family, expo, a.n, a.t, b.n, b.t)
			v.Sig = "C13|growth|" + c.Family
			return v
		}
	}
	v.NonTrivial = true
	var ss []string
	for _, p := range pts {
		ss = append(ss, fmt.Sprintf("n=%d:%.2fs", p.n, p.t))
	}
	st.Extra["cpu_"+c.Family] = strings.Join(ss, " ")
	v.Sample = map[string]any{"family": c.Family, "cpu": strings.Join(ss, " ")}
	return v
}

func checkC13(c CrashCase) Verdict {
	if c.Kind == "growth" {
		return checkGrowth(c)
	}
	v := Verdict{Key: c.Src, Class: c.Kind}
	if asksForHugeOutput(c.Src) {
		v.Skip = "asks for more than 16 MiB of output (time bounded by the output, not the input)"
		return v
	}
	recordLast(c.Src)
	if hung != "" {
		// an earlier case left a spinning goroutine behind; nothing run after it is trustworthy
		v.Fail, v.Sig = hung, "C13|hang"
		return v
	}
	done := make(chan asm.NoExitResult, 1)
	start := time.Now()
	// The real frontend.Exec is used whenever the text cannot reach one of its os.Exit calls (no
	// template metacharacters, no '.'/'$' inside identifiers); otherwise the exit-free replica.
	// raw fuzz inputs always take the replica: no predicate over arbitrary bytes is worth a dead fuzz worker
	real := c.Kind != "fuzz" && safeForExec(c.Src)
	if real {
		st.Classes["via-frontend.Exec"]++
	} else {
		st.Classes["via-replica"]++
	}
	go func() {
		if real {
			r := asm.Assemble(c.Src)
			done <- asm.NoExitResult{ParseErr: r.ParseErr, Panic: r.Panic, Out: r.Out}
			return
		}
		done <- asm.AssembleNoExit(c.Src)
	}()
	var r asm.NoExitResult
	select {
	case r = <-done:
	case <-time.After(45 * time.Second):
		// possible hang: confirm with the binary (60 s), the in-process goroutine is abandoned
		crashed, how, inconclusive := confirmWithBinary3(c.Src)
		if crashed {
			v.Fail = fmt.Sprintf("input of %d bytes does not terminate within 45 s in-process; %s\n--- input (first 600 bytes) ---\n%s", len(c.Src), how, head([]byte(c.Src), 600))
			v.Sig = "C13|hang"
			hung = v.Fail
			return v
		}
		if inconclusive {
			v.Skip = "slow in-process and the binary's wall-clock budget ran out before its CPU allowance (machine busy: inconclusive)"
		} else {
			v.Skip = "slow in-process, fine in the binary (inconclusive)"
		}
		// the abandoned goroutine may still be running: let it finish before the next case is timed
		select {
		case <-done:
		case <-time.After(10 * time.Minute):
			hung = fmt.Sprintf("input of %d bytes: the in-process run is still going after 10 more minutes although the binary finished (%s)", len(c.Src), how)
		}
		return v
	}
	_ = start
	if r.Panic != "" {
		crashed, how := confirmWithBinary(c.Src)
		if !crashed {
			v.Skip = "in-process panic not reproduced by the binary: " + how
			return v
		}
		v.Fail = fmt.Sprintf("runtime panic: %s\n%s\n--- input (quoted, first 600 bytes) ---\n%q", strings.SplitN(r.Panic, "\n", 2)[0], how, head([]byte(c.Src), 600))
		v.Sig = "C13|panic|site=" + panicSite(r.Panic)
		return v
	}
	// non-trivial: the input parses (reaches pass 1)
	v.NonTrivial = r.ParseErr == ""
	if r.ParseErr != "" {
		st.Classes["parse-rejected"]++
	} else {
		st.Classes["reached-pass1"]++
	}
	v.Sample = map[string]any{"kind": c.Kind, "input": string(head([]byte(c.Src), 240))}
	return v
}

// mutate applies one token- or line-level edit.
func mutate(t *rapid.T, lines []LLine, pool []LTok) []LLine {
	if len(lines) == 0 {
		return []LLine{{Kind: "stmt", Toks: []LTok{{T: "NOP", Word: true}}}}
	}
	li := rapid.IntRange(0, len(lines)-1).Draw(t, "mline")
	l := lines[li]
	cp := func(ts []LTok) []LTok { return append([]LTok{}, ts...) }
	randTok := func() LTok {
		if rapid.Bool().Draw(t, "hostile") {
			return LTok{T: rapid.SampledFrom(hostileToks).Draw(t, "htok"), Word: true}
		}
		return pool[rapid.IntRange(0, len(pool)-1).Draw(t, "ptok")]
	}
	switch rapid.IntRange(0, 9).Draw(t, "mop") {
	case 0: // delete a token
		if len(l.Toks) > 0 {
			i := rapid.IntRange(0, len(l.Toks)-1).Draw(t, "mi")
			l.Toks = append(cp(l.Toks[:i]), l.Toks[i+1:]...)
		}
	case 1: // duplicate a token
		if len(l.Toks) > 0 {
			i := rapid.IntRange(0, len(l.Toks)-1).Draw(t, "mi")
			l.Toks = append(cp(l.Toks[:i+1]), l.Toks[i:]...)
		}
	case 2, 3: // replace a token
		if len(l.Toks) > 0 {
			i := rapid.IntRange(0, len(l.Toks)-1).Draw(t, "mi")
			l.Toks = cp(l.Toks)
			l.Toks[i] = randTok()
		}
	case 4: // insert a token
		i := rapid.IntRange(0, len(l.Toks)).Draw(t, "mi")
		nt := append(cp(l.Toks[:i]), randTok())
		l.Toks = append(nt, l.Toks[i:]...)
	case 5: // swap adjacent tokens
		if len(l.Toks) > 1 {
			i := rapid.IntRange(0, len(l.Toks)-2).Draw(t, "mi")
			l.Toks = cp(l.Toks)
			l.Toks[i], l.Toks[i+1] = l.Toks[i+1], l.Toks[i]
		}
	case 6: // delete the line
		return append(append([]LLine{}, lines[:li]...), lines[li+1:]...)
	case 7: // duplicate the line
		out := append([]LLine{}, lines[:li+1]...)
		return append(out, lines[li:]...)
	case 8: // splice the operands of another line
		o := lines[rapid.IntRange(0, len(lines)-1).Draw(t, "mother")]
		if len(l.Toks) > 0 && len(o.Toks) > 1 {
			l.Toks = append([]LTok{l.Toks[0]}, o.Toks[1:]...)
		}
	default: // join with the next line
		if li+1 < len(lines) {
			l.Toks = append(cp(l.Toks), lines[li+1].Toks...)
			out := append([]LLine{}, lines[:li]...)
			out = append(out, l)
			return append(out, lines[li+2:]...)
		}
	}
	out := append([]LLine{}, lines...)
	out[li] = l
	return out
}

func renderLoose(lines []LLine) string {
	var sb strings.Builder
	for _, l := range lines {
		if !(len(l.Toks) == 1 && strings.HasSuffix(l.Toks[0].T, ":")) {
			sb.WriteString("\t")
		}
		for i, t := range l.Toks {
			if i > 0 && t.Word && l.Toks[i-1].Word {
				sb.WriteString(" ")
			}
			sb.WriteString(t.T)
		}
		sb.WriteString("\n")
	}
	return sb.String()
}

// scaled inputs: families whose size parameter n is the number of tokens
func scaledInput(family string, n int) string {
	var sb strings.Builder
	switch family {
	case "statements":
		for i := 0; i < n/4; i++ {
			sb.WriteString("\tMOV AX,1\n")
		}
	case "dblist":
		sb.WriteString("\tDB 1")
		for i := 0; i < n/2; i++ {
			sb.WriteString(",2")
		}
		sb.WriteString("\n")
	case "parens":
		sb.WriteString("\tDD " + strings.Repeat("(", n/2) + "1" + strings.Repeat(")", n/2) + "\n")
	case "sum":
		sb.WriteString("\tDD 1")
		for i := 0; i < n/2; i++ {
			sb.WriteString("+1")
		}
		sb.WriteString("\n")
	case "labels":
		for i := 0; i < n/5; i++ {
			fmt.Fprintf(&sb, "l%d:\n\tDW l%d\n", i, i)
		}
	case "equs":
		sb.WriteString("e0\tEQU\t1\n")
		for i := 1; i < n/5; i++ {
			fmt.Fprintf(&sb, "e%d\tEQU\te%d+1\n", i, i-1)
		}
		fmt.Fprintf(&sb, "\tDD e%d\n", n/5-1)
	case "branches":
		for i := 0; i < n/6; i++ {
			fmt.Fprintf(&sb, "\tJMP b%d\n\tRESB 120\nb%d:\n", i, i)
		}
	case "equdouble":
		// A(i) EQU A(i-1)+A(i-1) over a label: the stored bodies stay references, so a use re-expands them
		depth := n / 250 // 1000 -> 4, 3000 -> 12, 10000 -> 40, 30000 -> 120
		sb.WriteString("l0:\nA0\tEQU\tl0\n")
		for i := 1; i <= depth; i++ {
			fmt.Fprintf(&sb, "A%d\tEQU\tA%d+A%d\n", i, i-1, i-1)
		}
		fmt.Fprintf(&sb, "\tMOV AX,A%d\n", depth)
	case "equmuldouble", "equproddouble":
		// definitions are stored expanded: A(i) EQU A(i-1)*1+A(i-1)*1 (A0 undefined) doubles the stored text per line
		depth := n / 250
		form := "A%d*1+A%d*1"
		if family == "equproddouble" {
			form = "(A%d+1)*(A%d+2)"
		}
		for i := 1; i <= depth; i++ {
			fmt.Fprintf(&sb, "A%d\tEQU\t"+form+"\n", i, i-1, i-1)
		}
		fmt.Fprintf(&sb, "\tDW A%d\n\tNOP\n", depth)
	case "parensname":
		// parentheses nested around something that does not fold to a number (a label, an undefined name, an
		// EQU of a label), in several operand positions; depth 4 .. 40 .. 400
		depth := n / 250
		o, c := strings.Repeat("(", depth), strings.Repeat(")", depth)
		fmt.Fprintf(&sb, "l0:\nE0\tEQU\tl0\n\tMOV AX,%sl0%s\n\tDW %snosuch%s\n\tMOV CX,[%sl0%s]\n\tMOV DX,%sE0%s\n\tJMP %sl0%s\nE1\tEQU\t%sl1%s\nl1:\n\tDD E1\n", o, c, o, c, o, c, o, c, o, c, o, c)
	case "longline":
		sb.WriteString("\tMOV AX," + strings.Repeat("1+", n/2) + "1 ; " + strings.Repeat("x", n) + "\n")
	}
	return sb.String()
}

var scaleFamilies = []string{"statements", "dblist", "parens", "sum", "labels", "equs", "branches", "longline", "equdouble", "parensname", "equmuldouble", "equproddouble"}

var propC13 = &Prop[CrashCase]{
	ID:     "C13",
	Rule:   "(a) token- and line-level mutants (delete/duplicate/replace/insert/swap tokens, delete/duplicate/join lines, splice operands; replacement tokens from the program itself or a hostile pool: 64-bit-overflowing numbers, '{{.', '$', unbalanced brackets and quotes, keywords, bad addressing) of generated programs and corpus sources; identifiers of unusual shape (leading/trailing dots, $, @, ?, template braces, 300 characters, register and keyword look-alikes) as labels, branch targets, EQU/GLOBAL/EXTERN names and operands; every statement shape that takes a number x numbers around every power of two up to 2^64; (b) every grammar mnemonic with 0..4 operands of every kind; (c) scaled inputs (long statement lists, DB lists, nested parentheses, sums, many labels, EQU chains, widening branches, long lines) - size 1e3..1e4 tokens in-process, and CPU-time growth measured on the binary; oracle: no panic / runtime fatal error / hang (in-process finding confirmed through the real binary), growth exponent <= 2.2; non-trivial = the input parses (reaches pass 1), counted apart from parse-rejected inputs; distinct by input text",
	Assume: []string{"asm.AssembleNoExit restates frontend.Exec without os.Exit; every crash is re-run through the gosk binary before it is reported"},
	Gen: func(t *rapid.T) CrashCase {
		loadCorpus()
		if rapid.IntRange(0, 5).Draw(t, "exprfam") == 0 {
			// expression trees in every operand position, including the ones C06 leaves out of its
			// domain (division or remainder by something that evaluates to zero, 64-bit overflow)
			ec := propC06.Gen(t)
			if ec.Pos == "resb" {
				ec.Pos = "dd" // a reservation computed from a huge value is the excluded ">16 MiB of output" case
			}
			zero := rapid.SampledFrom([]string{"", "", "/0", "/(1-1)", "%(2-2)", "/qz", "%qz", "/$", "*0x7fffffffffffffff", "-9223372036854775807-1", "/(qz*5)"}).Draw(t, "zero")
			text := ec.E.Render() + zero
			return CrashCase{Src: ec.header() + "qz\tEQU\t0\n" + ec.equLines() + ec.stmt(text, false, 0), Kind: "expr"}
		}
		if rapid.IntRange(0, 11).Draw(t, "identfam") == 0 {
			// identifiers of unusual shape (local-label dots, $, @, ?, template braces, very long, digits first) as
			// labels, branch targets, EQU names, GLOBAL/EXTERN names and plain operands
			idents := []string{".loop", "a$b", "$x", "x.", "a.b", "..", ".", "@f", "?x", "x?", "_", "__", "$", "$$", "x#y", "x~", "{{.x}}", "{{x", "x}}", "a{{.}}b",
				"9lives", "0x", "0xg", "1b", strings.Repeat("long_", 60), "\u00e9t\u00e9", "EAX", "eax", "Mov", "db", "equ", "SHORT", "near", "BYTE", "st0", "cr8", "dr0", "mm0", "xmm0", "k1", "r8d"}
			var sb strings.Builder
			if rapid.Bool().Draw(t, "identcoff") {
				sb.WriteString("[FORMAT \"WCOFF\"]\n[BITS 32]\n")
			}
			for j := rapid.IntRange(1, 5).Draw(t, "identn"); j > 0; j-- {
				id := rapid.SampledFrom(idents).Draw(t, "ident")
				use := rapid.SampledFrom([]string{"%s:\n", "\tJMP %s\n", "\tCALL %s\n", "\tJE %s\n", "%s\tEQU\t5\n", "\tMOV AX,%s\n", "\tDW %s\n", "\tGLOBAL %s\n", "\tEXTERN %s\n", "\tMOV AX,[%s]\n", "\tLGDT [%s]\n", "\tDB %s\n", "%s:\n\tJMP %s\n", "\tJMP %s\n%s:\n", "\tMOV EAX,%s+1\n", "\tPUSH %s\n", "\tJMP DWORD %s*8:0x1b\n", "\tCALL 2*%s:0\n", "\tDW 2*%s*3\n", "\tJMP 8:%s*2\n"}).Draw(t, "identuse")
				n := strings.Count(use, "%s")
				fmt.Fprintf(&sb, use, []any{id, id}[:n]...)
			}
			return CrashCase{Src: sb.String(), Kind: "ident"}
		}
		if rapid.IntRange(0, 7).Draw(t, "equfam") == 0 {
			// EQU graphs: bodies over other names (defined earlier, later, or themselves), plain or wrapped
			// in a memory operand / far pointer, then uses of the names in several kinds of statement
			k := rapid.IntRange(1, 5).Draw(t, "equn")
			var sb strings.Builder
			sb.WriteString("lab0:\n\tNOP\n")
			for i := 0; i < k; i++ {
				a := rapid.IntRange(0, k).Draw(t, "equref")
				b := rapid.IntRange(0, k).Draw(t, "equref2")
				ref := func(j int) string {
					if j == k {
						return rapid.SampledFrom([]string{"lab0", "7", "$"}).Draw(t, "equleaf")
					}
					return fmt.Sprintf("E%d", j)
				}
				body := rapid.SampledFrom([]string{"%s", "%s+1", "%s*2", "%s+%s", "%s-%s", "[%s]", "[%s+4]", "8:%s", "%s:8", "%s*8:0x1b", "2*%s:%s", "(%s)", "%s/%s", "WORD [%s]", "2*%s*3", "512*%s/4"}).Draw(t, "equform")
				n := strings.Count(body, "%s")
				args := []any{ref(a), ref(b)}[:n]
				fmt.Fprintf(&sb, "E%d\tEQU\t%s\n", i, fmt.Sprintf(body, args...))
			}
			for j := rapid.IntRange(1, 4).Draw(t, "equuses"); j > 0; j-- {
				use := rapid.SampledFrom([]string{"\tMOV AX,%s\n", "\tDW %s\n", "\tDB %s,1\n", "\tJMP %s\n", "\tMOV AX,[%s]\n", "\tADD BX,%s+1\n", "\tRESB %s\n", "\tPUSH %s\n", "\tCALL %s\n", "\tJMP DWORD %s*8:0x1b\n", "\tCALL 2*%s:0\n", "\tMOV AX,%s*2:5\n", "\tJMP %s:5\n", "\tDW 2*%s*3\n", "\tDD 512*%s/4\n"}).Draw(t, "equuse")
				fmt.Fprintf(&sb, use, fmt.Sprintf("E%d", rapid.IntRange(0, k-1).Draw(t, "equusen")))
			}
			return CrashCase{Src: sb.String(), Kind: "equgraph"}
		}
		var lines []LLine
		switch rapid.IntRange(0, 4).Draw(t, "base") {
		case 0:
			if len(corpusNames) > 0 {
				lines = corpusLines[rapid.SampledFrom(corpusNames).Draw(t, "cfile")]
				break
			}
			fallthrough
		case 1:
			c := genCoffCase(t)
			lines = tokenizeSource(c.source(true))
		default:
			p := genLabelProg(t, rapid.SampledFrom([]int{0, 16, 32}).Draw(t, "mode"), rapid.SampledFrom(orgSet).Draw(t, "org"), true)
			lines = tokenizeSource(p.Source())
		}
		var pool []LTok
		for _, l := range lines {
			pool = append(pool, l.Toks...)
		}
		if len(pool) == 0 {
			pool = []LTok{{T: "NOP", Word: true}}
		}
		for k := rapid.SampledFrom([]int{1, 1, 1, 2, 2, 3, 4}).Draw(t, "nmut"); k > 0; k-- {
			lines = mutate(t, lines, pool)
		}
		return CrashCase{Src: renderLoose(lines), Kind: "mutant"}
	},
	Check: checkC13,
	Enum: func(tier string, yield func(CrashCase)) bool {
		// (b) arity sweep: every mnemonic x arity 0..4 x a rotating choice of operand kinds
		ops := GrammarOpcodes()
		for mi, mn := range ops {
			for ar := 0; ar <= 4; ar++ {
				reps := 1
				if ar > 0 {
					reps = 6
					if tier == "thorough" {
						reps = len(shapeKinds)
					}
				}
				for rpt := 0; rpt < reps; rpt++ {
					kinds := make([]string, ar)
					for i := range kinds {
						kinds[i] = shapeKinds[(mi+rpt*5+i*7)%len(shapeKinds)]
					}
					c := mkShape([]int{0, 32}[(mi+rpt)%2], mn, kinds, mi+rpt)
					yield(CrashCase{Src: c.source(true), Kind: "arity"})
				}
			}
		}
		// (b2) every statement shape that takes a number x numbers around every power-of-two boundary up to 2^64
		for _, tmpl := range []string{"RESB %s", "ALIGNB %s", "ORG %s", "DB %s", "DW %s", "DD %s", "INT %s", "RET %s", "SHL AX,%s", "IN AL,%s", "OUT %s,AL", "PUSH %s", "JMP %s", "CALL %s",
			"MOV AX,%s", "MOV EAX,[%s]", "MOV AX,[BX+%s]", "ADD BYTE [SI],%s", "IMUL CX,%s", "JMP %s:0", "JMP 8:%s", "X EQU %s\n\tDW X", "RESB %s-$", "DB 1\n\tALIGNB %s", "[BITS %s]", "MOV AX,%s*2", "DW %s/0"} {
			for _, num := range hostileNumbers {
				src := "\t" + fmt.Sprintf(tmpl, num) + "\n\tNOP\n"
				if strings.HasPrefix(tmpl, "X EQU") || strings.HasPrefix(tmpl, "[") {
					src = fmt.Sprintf(tmpl, num) + "\n\tNOP\n"
				}
				yield(CrashCase{Src: src, Kind: "numsweep"})
			}
		}
		// (c) scaled inputs, in-process no-crash part
		sizes := []int{1000, 3000, 10000}
		if tier == "thorough" {
			sizes = append(sizes, 30000, 100000)
		}
		for _, f := range scaleFamilies {
			for _, n := range sizes {
				if f == "parens" && n > 10000 {
					continue // nesting depth is bounded by the Go stack, see DESIGN.md
				}
				yield(CrashCase{Src: scaledInput(f, n), Kind: "scale", Family: f})
			}
		}
		// nested 16-bit branches on the rel8 boundary (C04's chain grid): the branch-widening loop must terminate
		for k := 2; k <= 4; k++ {
			for g0 := 108; g0 <= 128; g0++ {
				for _, gn := range []int{0, 1, 2, 6} {
					c := BranchCase{Mode: 16, Org: -1, Kind: "chain", Trailing: true}
					for i := 0; i < k; i++ {
						c.Chain = append(c.Chain, []string{"JMP", "JE", "JNZ", "JC"}[(i+g0)%4])
						if i == 0 {
							c.Gaps = append(c.Gaps, g0)
						} else {
							c.Gaps = append(c.Gaps, gn)
						}
					}
					src, _ := c.source()
					yield(CrashCase{Src: src, Kind: "chain"})
				}
			}
		}
		// (c) growth of CPU time, measured on the binary
		for _, f := range scaleFamilies {
			yield(CrashCase{Kind: "growth", Family: f})
		}
		return false
	},
}

func TestC13(t *testing.T) { Run(t, propC13) }
