package props

import (
	"bytes"
	"fmt"
	"os"
	"path/filepath"
	"strings"
	"sync"
	"testing"

	"github.com/HobbyOSs/gosk/verifharness/asm"
	"pgregory.net/rapid"
)

// ---------------------------------------------------------------------------
// C10 — output is deterministic and independent of history.
//
// Model: program -> bytes produced by a fresh gosk process (computed once
// per program, cached). A generated history of assemble calls in ONE process
// must reproduce the model's bytes at every step.

// pool programs are deterministic functions of (kind, index): rapid's
// generators are used through Example(seed), so no private RNG is involved.
var (
	poolOnce sync.Once
	pool     []string
	poolDesc []string
)

const poolSize = 28 // generated programs; twins, zoo and tiny programs are added on top

func buildPool() {
	poolOnce.Do(func() {
		labelGen := rapid.Custom(func(t *rapid.T) Prog {
			mode := rapid.SampledFrom([]int{0, 16, 32}).Draw(t, "mode")
			org := rapid.SampledFrom(orgSet).Draw(t, "org")
			return genLabelProg(t, mode, org, true)
		})
		coffGen := rapid.Custom(genCoffCase)
		dataGen := rapid.Custom(func(t *rapid.T) DataCase { return propC05.Gen(t) })
		for i := 0; len(pool) < poolSize && i < 400; i++ {
			var src, desc string
			switch i % 4 {
			case 0, 1:
				p := labelGen.Example(1000 + i)
				src, desc = p.Source(), "labels"
			case 2:
				c := coffGen.Example(2000 + i)
				src, desc = c.source(true), "wcoff"
			default:
				c := dataGen.Example(3000 + i)
				src, desc = c.source(), "data"
			}
			// only programs the fresh process accepts with exit 0 enter the pool
			if _, ok := asm.FreshProcessBytes(src); ok {
				pool = append(pool, src)
				poolDesc = append(poolDesc, desc)
			}
		}
		add := func(src, desc string) {
			if _, ok := asm.FreshProcessBytes(src); ok {
				pool = append(pool, src)
				poolDesc = append(poolDesc, desc)
			}
		}
		// twins: the same statements under BITS 16 and under BITS 32 (state keyed on the statement
		// text alone would leak from one into the other)
		for i := 0; i < 6; i++ {
			p := labelGen.Example(5000 + i)
			for _, m := range []int{16, 32} {
				q := p
				q.Mode = m
				add(q.Source(), fmt.Sprintf("twin-%d", m))
			}
		}
		// spelling zoo: constant terms in every position of memory operands and expressions, accumulator
		// moves with direct and with indirect addresses (anything that rewrites the tree or caches a
		// lookup under too coarse a key shows up when these are re-assembled or interleaved)
		add("[BITS 32]\nzq\tEQU\t4\n\tMOV EAX,[EBX-4+ESI]\n\tMOV ECX,[4+EBX]\n\tMOV EDX,[EBX+ESI*2-8+4]\n\tMOV AL,[0x1234]\n\tMOV [0x1234],EAX\n\tADD EAX,zq*2-1\n\tMOV AX,[BX-2+SI]\n\tCMP AL,0xfa\nzl:\n\tDD zl-1+2,zq/2\n", "zoo-a")
		add("[BITS 32]\nzq\tEQU\t9\n\tMOV EAX,[ESI-4+EBX]\n\tMOV ECX,[EBX+4]\n\tMOV AL,[ESI]\n\tMOV [EDI],EAX\n\tMOV AX,[SI]\n\tADD EAX,1-zq*2\n\tMOV AX,[BX+SI-2]\n\tCMP AL,0x7a\nzl:\n\tDD 2+zl-1,zq%2\n", "zoo-b")
		add("\tMOV AL,[0x1234]\n\tMOV AX,[0x1234]\n\tMOV [0x0ff0],AL\n\tMOV AL,[SI]\n\tMOV AX,[BX]\n\tMOV [DI],AL\n\tMOV AX,[BX-2+SI]\nzl:\n\tDW zl\n", "zoo-c")
		add("\tPUSH DS\n\tPUSH ES\n\tPOP DS\n\tPUSH CS\n\tPUSH FS\n\tPOP GS\n\tMOV AX,DS\n\tMOV ES,AX\nzl:\n\tDW zl\n", "zoo-d")
		add("\tPUSH 1\nza:\n\tDW za\n\tPUSH 300\nzb:\n\tDW zb\n\tPUSH AX\n\tPOP BX\n\tPUSH WORD [BX]\nzc:\n\tDW zc\n\tMOV AX,1\n\tADD AX,300\n\tIN AL,0x60\n\tOUT 0x20,AL\nzd:\n\tDW zd\n", "zoo-e")
		add("[BITS 32]\n\tPUSH 1\nza:\n\tDD za\n\tPUSH 300\nzb:\n\tDD zb\n\tPUSH EAX\n\tPOP EBX\n\tPUSH DWORD [EBX]\nzc:\n\tDD zc\n\tIMUL ECX,300\n\tSHL EAX,3\n\tNOT EDX\nzd:\n\tDD zd\n", "zoo-f")
		// a 16-bit program without any directive that depends on the default mode at a label-sensitive place
		// (after a [BITS 32] program has run in the same process), in the style of the book's asmhead
		add("\tORG 0xc200\n\tMOV AX,0\n\tLGDT [zgdtr]\n\tMOV EAX,CR0\n\tJMP zflush\nzflush:\n\tMOV AX,8\n\tMOV DS,AX\n\tJMP DWORD 2*8:0x1b\n\tALIGNB 16\nzgdt:\n\tRESB 8\n\tDW 0xffff,0,0x9200,0x00cf\nzgdtr:\n\tDW 8*3-1\n\tDD zgdt\n\tDW zflush\n", "zoo-g")
		// pairs: a branch that must be widened at statement index k in one program, a branch that fits at the
		// same index in the other (bookkeeping about branches that survives a run shows in the second)
		for k := 0; k < 5; k++ {
			pre := strings.Repeat("\tNOP\n", k)
			add(pre+"\tJNE zw\n\tRESB 200\nzw:\n\tDW zw\n", fmt.Sprintf("widen-at-%d", k))
			add(pre+"\tJNE zs\n\tRESB 2\nzs:\n\tDW zs\n", fmt.Sprintf("short-at-%d", k))
			add("[BITS 32]\n"+pre+"\tJNE zs\n\tRESB 2\nzs:\n\tDD zs\n", fmt.Sprintf("short32-at-%d", k))
		}
		// the same identifier as an EQU constant in one program and as a label (or an undefined-at-first forward
		// label) in others: symbol or macro tables that survive a run show when the second one is assembled
		add("zcol\tEQU\t5\nzcol2\tEQU\tzcol*2\n\tMOV AX,zcol\n\tDB zcol2\n", "collide-equ")
		add("\tDB 1,2,3\nzcol:\n\tDW zcol\n\tJMP zcol\nzcol2:\n\tMOV AX,zcol2\n", "collide-label")
		add("[BITS 32]\n\tJMP zcol\n\tDB 9\nzcol:\n\tDD zcol\n\tMOV EAX,zcol2\nzcol2:\n", "collide-label32")
		// two branches that need widening in the same round, followed by padding that absorbs the bytes one of them
		// gains (if the order in which they are widened mattered, so would the image)
		for _, al := range []int{4, 16} {
			add(fmt.Sprintf("\tJE zx1\n\tJNE zx2\n\tRESB 124\nzx1:\n\tNOP\nzx2:\n\tALIGNB %d\nzx3:\n\tDW zx3,zx1,zx2\n\tRESB 0x200-$\n\tDB 0x55\n", al), fmt.Sprintf("two-widen-alignb-%d", al))
			add(fmt.Sprintf("\tJMP zy1\n\tDB 1\n\tJC zy2\n\tRESB 125\nzy1:\nzy2:\n\tALIGNB %d\n\tDW $\n", al), fmt.Sprintf("two-widen-same-target-%d", al))
		}
		// a forward branch over an ALIGNB and a backward branch behind it, both out of reach by a byte or two: widening
		// the first moves the second's target without moving the second (the padding absorbs the byte), so an
		// assembler that widens "some" of the reported branches per round gives an image that depends on which
		for _, a := range []int{9, 10, 11} {
			for _, b := range []int{112, 113, 114} {
				add(fmt.Sprintf("\tORG 0\n\tJMP zly\nzt:\n\tRESB %d\n\tALIGNB 16\n\tRESB %d\n\tJMP zt\nzly:\n\tHLT\n\tDW zt,zly\n", a, b), fmt.Sprintf("cross-widen-%d-%d", a, b))
			}
		}
		// tiny programs: one catalogue statement, a label after it, both modes
		ntiny := 20
		if tier() == "thorough" {
			ntiny = 150
		}
		stmtGen := rapid.Custom(func(t *rapid.T) string {
			text, _ := genPlainStmt(t, 0, false)
			return text
		})
		for i := 0; i < ntiny; i++ {
			text := stmtGen.Example(7000 + i)
			for _, m := range []int{16, 32} {
				if accepts(m, text) {
					add(fmt.Sprintf("[BITS %d]\n\t%s\nzt:\n\tDD zt\n", m, text), fmt.Sprintf("tiny-%d", m))
				}
			}
		}
		// one program with many symbols, where map iteration order would show
		var sb strings.Builder
		sb.WriteString("[FORMAT \"WCOFF\"]\n[BITS 32]\n[FILE \"many.nas\"]\n")
		for i := 0; i < 48; i++ {
			fmt.Fprintf(&sb, "\tGLOBAL _sym%02d\n", (i*29)%48)
		}
		for i := 0; i < 48; i++ {
			// pairs of labels share an address, so an ordering that depends on map iteration shows as a tie flip
			if i%2 == 0 {
				fmt.Fprintf(&sb, "_sym%02d:\n", i)
			} else {
				fmt.Fprintf(&sb, "_sym%02d:\n\tMOV EAX,%d\n\tRET\n", i, i)
			}
		}
		if _, ok := asm.FreshProcessBytes(sb.String()); ok {
			pool = append(pool, sb.String())
			poolDesc = append(poolDesc, "wcoff-48-symbols")
		}
	})
}

type HistAction struct {
	Kind string `json:"k"` // inproc | junk | stale | reuse | cli | fail
	Prog int    `json:"p"`
}

type HistCase struct {
	Actions []HistAction `json:"actions"`
}

var failingSources = []string{
	"\tMOV AX,\n",                 // parse error
	"\tMOV AX,[\n\tDB 1\n",        // parse error
	"\tJMP nowhere\n\tDB 1,2,3\n", // diagnosed
	"\tADC AX,1\n\tHLT\n",         // diagnosed
	"X EQU X\n\tDB X\n",           // diagnosed
}

var (
	treeMu    sync.Mutex
	treeCache = map[int]any{}
	reuseIdx  []int
)

func checkC10(c HistCase) Verdict {
	buildPool()
	var keyb strings.Builder
	for _, a := range c.Actions {
		fmt.Fprintf(&keyb, "%s%d,", a.Kind, a.Prog)
	}
	v := Verdict{Key: keyb.String()}
	if len(pool) < 4 {
		v.Skip = "program pool could not be built (binary missing?)"
		return v
	}
	distinct := map[int]bool{}
	repeated, special := false, false
	dst := filepath.Join(asm.TmpDir(), "c10-out.bin")
	for step, a := range c.Actions {
		i := a.Prog % len(pool)
		if a.Kind == "reuse" {
			// re-executing a parse tree only bites on the second use of the same tree: half of the "reuse" actions draw
			// from the hand-written and twin programs only, so that repeats are frequent
			if len(reuseIdx) == 0 {
				for j, d := range poolDesc {
					if strings.HasPrefix(d, "zoo") || strings.HasPrefix(d, "twin") || strings.HasPrefix(d, "collide") {
						reuseIdx = append(reuseIdx, j)
					}
				}
			}
			if len(reuseIdx) > 0 && a.Prog%2 == 0 {
				i = reuseIdx[(a.Prog/2)%len(reuseIdx)]
			}
		}
		src := pool[i]
		want, _ := asm.FreshProcessBytes(src)
		var got []byte
		what := a.Kind
		switch a.Kind {
		case "inproc":
			r := asm.AssembleTo(src, dst, false)
			got = r.Out
			os.Remove(dst)
		case "stale":
			// destination pre-filled with the right image followed by further bytes (the remains of a longer
			// program): an "is it up to date" shortcut that looks at a prefix would leave it alone
			os.WriteFile(dst, append(append([]byte{}, want...), []byte("stale tail of a longer image")...), 0o644)
			r := asm.AssembleTo(src, dst, false)
			got = r.Out
			os.Remove(dst)
			special = true
		case "junk":
			// destination pre-filled with more bytes than the image
			junk := bytes.Repeat([]byte{0xa5, 0x5a, 0xff, 0x00}, len(want)/4+64)
			os.WriteFile(dst, junk, 0o644)
			r := asm.AssembleTo(src, dst, false)
			got = r.Out
			os.Remove(dst)
			special = true
		case "reuse":
			treeMu.Lock()
			pt, ok := treeCache[i]
			treeMu.Unlock()
			if !ok {
				var err error
				pt, err = asm.Parse(src)
				if err != nil {
					v.Skip = "pool program no longer parses"
					return v
				}
				treeMu.Lock()
				treeCache[i] = pt
				treeMu.Unlock()
				// first use of the tree counts as a plain run; the next "reuse" of the same
				// program re-executes the same tree
			} else {
				special = true
			}
			r := asm.ExecTree(pt, dst, false, nil)
			got = r.Out
			os.Remove(dst)
		case "cli":
			// a second fresh process: cross-process determinism
			in := filepath.Join(asm.TmpDir(), "c10-in.nas")
			os.WriteFile(in, []byte(src), 0o644)
			r := asm.RunCLI(asm.TmpDir(), in, dst)
			if r.Err != nil {
				v.Skip = "the gosk binary did not finish (time-out or start failure): inconclusive"
				return v
			}
			if r.Exit != 0 {
				v.Fail = fmt.Sprintf("step %d: fresh process failed (exit %d, %v) on a program that assembled before", step, r.Exit, r.Err)
				v.Sig = "C10|cli-exit"
				return v
			}
			got, _ = os.ReadFile(dst)
			os.Remove(dst)
			os.Remove(in)
		case "fail":
			asm.Assemble(failingSources[a.Prog%len(failingSources)])
			continue
		}
		if distinct[i] {
			repeated = true
		}
		distinct[i] = true
		if !bytes.Equal(got, want) {
			at := 0
			for at < len(got) && at < len(want) && got[at] == want[at] {
				at++
			}
			v.Fail = fmt.Sprintf("step %d (%s of pool program %d, %s): %d bytes, a fresh process produces %d bytes; first difference at offset %d (% x vs % x)\nhistory: %s\n--- program ---\n%s",
				step, what, i, poolDesc[i], len(got), len(want), at, clip(got, at), clip(want, at), keyb.String(), head([]byte(src), 1500))
			v.Sig = "C10|diff|" + a.Kind
			return v
		}
	}
	v.NonTrivial = len(distinct) >= 2 && repeated && special
	v.Class = fmt.Sprintf("len=%s", bucket(len(c.Actions)))
	v.Sample = map[string]any{"history": keyb.String()}
	return v
}

var propC10 = &Prop[HistCase]{
	ID:     "C10",
	Rule:   "histories of 2..25 assemble calls in one process over a pool of about 29 generated programs (flat and WCOFF, 16- and 32-bit, with labels/EQUs/GLOBALs, one with 48 symbols): assemble into a fresh file, into a file pre-filled with longer junk, re-execute the same parse tree, run the binary again, assemble a failing program in between; model = bytes from a fresh gosk process per program (cached); invariant after every call: bytes = model; non-trivial = >= 2 distinct programs, a repetition, and a tree re-execution or junk destination; distinct by action sequence",
	Assume: []string{"the gosk binary built from the current tree by the driver is the fresh-process reference"},
	Gen: func(t *rapid.T) HistCase {
		n := rapid.IntRange(2, 25).Draw(t, "n")
		var c HistCase
		for i := 0; i < n; i++ {
			k := rapid.SampledFrom([]string{"inproc", "inproc", "junk", "stale", "reuse", "reuse", "fail", "cli"}).Draw(t, "kind")
			if k == "cli" && rapid.IntRange(0, 3).Draw(t, "clirare") != 0 {
				k = "inproc"
			}
			// small program indices repeat often
			c.Actions = append(c.Actions, HistAction{Kind: k, Prog: rapid.IntRange(0, 400).Draw(t, "prog")})
		}
		return c
	},
	Check: checkC10,
}

func TestC10(t *testing.T) { Run(t, propC10) }
