package props

import (
	"bytes"
	"fmt"
	"strings"
	"testing"

	"github.com/HobbyOSs/gosk/verifharness/asm"
	"github.com/HobbyOSs/gosk/verifharness/sem"
	"github.com/HobbyOSs/gosk/verifharness/x86asm"
	"pgregory.net/rapid"
)

// ---------------------------------------------------------------------------
// C05 — data directives emit exactly their operand values.
// The case carries, for every line, the bytes the reference model expects
// (computed at generation time from the structured operands, never by
// parsing text), so the check is a plain comparison.

type DataOp struct {
	Text string `json:"t"`
	Kind string `json:"k"`           // num | str | label | dollar
	Val  int64  `json:"v,omitempty"` // num: value
	Str  string `json:"s,omitempty"` // str: raw bytes
	Ref  string `json:"r,omitempty"` // label name
}

type DataLine struct {
	Kind string   `json:"k"` // db dw dd resb resbto alignb equ label dir widen (a Jcc over 200 reserved bytes: forces a second assembly round; N = serial)
	Ops  []DataOp `json:"ops,omitempty"`
	N    int64    `json:"n,omitempty"`    // resb count / alignb unit / resbto target address
	Name string   `json:"name,omitempty"` // label / equ name
	Text string   `json:"text,omitempty"` // equ body / directive text
}

type DataCase struct {
	Org   int64      `json:"org"`
	Mode  int        `json:"mode"`
	Lines []DataLine `json:"lines"`
}

func (c *DataCase) header() string {
	s := ""
	if c.Org >= 0 {
		s += fmt.Sprintf("\tORG 0x%x\n", c.Org)
	}
	switch c.Mode {
	case 16:
		s += "[BITS 16]\n"
	case 32:
		s += "[BITS 32]\n"
	}
	return s
}

func (c *DataCase) source() string {
	var sb strings.Builder
	sb.WriteString(c.header())
	for _, l := range c.Lines {
		switch l.Kind {
		case "db", "dw", "dd":
			parts := make([]string, len(l.Ops))
			for i, o := range l.Ops {
				parts[i] = o.Text
			}
			fmt.Fprintf(&sb, "\t%s %s\n", strings.ToUpper(l.Kind), strings.Join(parts, ","))
		case "resb":
			fmt.Fprintf(&sb, "\tRESB %s\n", l.Text)
		case "resbto":
			fmt.Fprintf(&sb, "\tRESB 0x%x-$\n", l.N)
		case "alignb":
			fmt.Fprintf(&sb, "\tALIGNB %d\n", l.N)
		case "equ":
			fmt.Fprintf(&sb, "%s\tEQU\t%s\n", l.Name, l.Text)
		case "label":
			fmt.Fprintf(&sb, "%s:\n", l.Name)
		case "dir":
			fmt.Fprintf(&sb, "%s\n", l.Text)
		case "widen":
			fmt.Fprintf(&sb, "\tJNE zzw%d\n\tRESB 200\nzzw%d:\n", l.N, l.N)
		}
	}
	return sb.String()
}

// refData is the reference model of the directives, written from the
// property text. It returns the expected image, or ok=false when the case
// is not well-formed (negative reservation).
func refData(c *DataCase) (img []byte, ok bool) { return refDataOut(c, nil) }

// refDataOut: out is the assembler's output when known. The bytes of a "widen" line's branch are
// not C05's business: its length is read from out (it must decode as JNE +200 there, else the case
// is left to C04) and its bytes are copied; without out the usual near form is assumed.
func refDataOut(c *DataCase, out []byte) (img []byte, ok bool) {
	org := c.Org
	if org < 0 {
		org = 0
	}
	labels := map[string]int64{}
	put := func(v int64, width int) {
		for i := 0; i < width; i++ {
			img = append(img, byte(uint64(v)>>(8*uint(i))))
		}
	}
	for _, l := range c.Lines {
		addr := org + int64(len(img))
		switch l.Kind {
		case "db", "dw", "dd":
			w := map[string]int{"db": 1, "dw": 2, "dd": 4}[l.Kind]
			for _, o := range l.Ops {
				switch o.Kind {
				case "num":
					put(o.Val, w)
				case "str":
					img = append(img, []byte(o.Str)...)
				case "label":
					put(labels[o.Ref], w)
				case "dollar":
					put(addr, w)
				}
			}
		case "resb":
			img = append(img, make([]byte, l.N)...)
		case "resbto":
			n := l.N - addr
			if n < 0 {
				return nil, false
			}
			img = append(img, make([]byte, n)...)
		case "alignb":
			pad := (l.N - addr%l.N) % l.N
			img = append(img, make([]byte, pad)...)
		case "label":
			labels[l.Name] = addr
		case "widen":
			mode := sem.ModeOf(c.Mode)
			var br []byte
			if out == nil {
				br = []byte{0x0f, 0x85, 200, 0}
				if mode == 32 {
					br = []byte{0x0f, 0x85, 200, 0, 0, 0}
				}
			} else {
				if len(img) >= len(out) {
					return nil, false
				}
				inst, err := x86asm.Decode(out[len(img):], mode)
				rel, isRel := inst.Args[0].(x86asm.Rel)
				if err != nil || !isRel || int64(rel) != 200 || sem.CanonOp(inst.Op.String()) != "JNE" {
					return nil, false
				}
				br = out[len(img) : len(img)+inst.Len]
			}
			img = append(img, br...)
			img = append(img, make([]byte, 200)...)
		}
	}
	return img, true
}

var truncWarn = "out of range for D"

// diagnosedC05: like asm.Diagnosed, but the truncation warning is by-spec
// ("low bits of each operand value") and does not remove the case from the domain.
func diagnosedC05(r, base *asm.Result) (bool, string) {
	if r.Failed() {
		return true, asm.DiagClass(r, base)
	}
	for _, d := range asm.ExtraDiags(r, base) {
		if strings.Contains(d, truncWarn) && strings.Contains(d, "truncating") {
			continue
		}
		return true, asm.DiagClass(&asm.Result{Diags: []string{d}}, base)
	}
	return false, ""
}

func checkC05(c DataCase) Verdict {
	src := c.source()
	v := Verdict{Key: src}
	r := asm.Assemble(src)
	want, ok := refDataOut(&c, r.Out)
	if !ok {
		v.Skip = "ill-formed case (negative reservation, or the context branch is not the expected one)"
		return v
	}
	// baseline: the header plus the program's bracket/GLOBAL/EXTERN lines (each prints content-free warnings)
	bsrc := c.header()
	for _, l := range c.Lines {
		if l.Kind == "dir" {
			bsrc += l.Text + "\n"
		}
	}
	base := asm.Baseline(bsrc)
	if d, cls := diagnosedC05(r, base); d {
		// The generator builds only programs every operand of which is a constant, a string or an
		// already defined label; on the tree the check was built against none of them is diagnosed.
		// C05 is unconditional ("DB, DW and DD emit ..."), so refusing such a program is a violation.
		if r.Panic != "" {
			v.Skip = "panic (C13 decides)"
			return v
		}
		v.Fail = fmt.Sprintf("a program of well-formed data directives is rejected or diagnosed (%s); output % x\n--- source ---\n%s", cls, head(r.Out, 32), src)
		v.Sig = "C05|diagnosed|" + cls
		return v
	}
	kinds := map[string]bool{}
	nontriv := false
	for _, l := range c.Lines {
		kinds[l.Kind] = true
		if len(l.Ops) >= 2 {
			nontriv = true
		}
		for _, o := range l.Ops {
			if o.Kind == "str" || (o.Kind == "num" && strings.ContainsAny(o.Text, "+-*/%(") && !strings.HasPrefix(o.Text, "-")) {
				nontriv = true
			}
		}
		if l.Kind == "alignb" || l.Kind == "resbto" {
			nontriv = true
		}
	}
	if !bytes.Equal(r.Out, want) {
		// locate the first differing line for the signature
		at := 0
		for at < len(want) && at < len(r.Out) && want[at] == r.Out[at] {
			at++
		}
		lineKind := "?"
		var img []byte
		cc := c
		for i := range c.Lines {
			cc.Lines = c.Lines[:i+1]
			img, _ = refDataOut(&cc, r.Out)
			if len(img) > at {
				lineKind = c.Lines[i].Kind
				break
			}
		}
		v.Fail = fmt.Sprintf("output differs from the reference model at offset %d (in a %s line): got % x, want % x\n--- source ---\n%s", at, lineKind, clip(r.Out, at), clip(want, at), src)
		v.Sig = fmt.Sprintf("C05|diff|line=%s|lenwant=%d|lengot=%d", lineKind, len(want), len(r.Out))
		return v
	}
	org := c.Org
	if org < 0 {
		org = 0
	}
	if int64(r.LOC)-org != int64(len(want)) {
		v.Fail = fmt.Sprintf("location counter advanced by %d, %d bytes were emitted\n%s", int64(r.LOC)-org, len(want), src)
		v.Sig = "C05|loc"
		return v
	}
	v.NonTrivial = nontriv
	for k := range kinds {
		st.Classes["has:"+k]++
	}
	v.Sample = map[string]any{"source": src, "bytes": len(want)}
	return v
}

func clip(b []byte, at int) []byte {
	lo, hi := at-4, at+12
	if lo < 0 {
		lo = 0
	}
	if hi > len(b) {
		hi = len(b)
	}
	if lo > hi {
		lo = hi
	}
	return b[lo:hi]
}

// ---- generators

var dataBoundary = []int64{0, 1, -1, 0x7f, 0x80, -128, -129, 0xff, 0x100, 0x1ff, -255, -256, 0x7fff, 0x8000, -32768, -32769, 0xffff, 0x10000, 0x12345, 0x7fffffff, 0x80000000, 0xffffffff, 0x100000000, -2147483648, -2147483649, 0x123456789a}

func genConstExprSmall(t *rapid.T) (string, int64) {
	a := rapid.Int64Range(0, 300).Draw(t, "ea")
	b := rapid.Int64Range(1, 300).Draw(t, "eb")
	c := rapid.Int64Range(1, 9).Draw(t, "ec")
	sp := rapid.SampledFrom([]string{"", " "}).Draw(t, "esp")
	switch rapid.IntRange(0, 6).Draw(t, "eform") {
	case 0:
		return fmt.Sprintf("%d%s+%s%d", a, sp, sp, b), a + b
	case 1:
		return fmt.Sprintf("%d%s-%s%d", a, sp, sp, b), a - b
	case 2:
		return fmt.Sprintf("%d%s*%s%d", a, sp, sp, c), a * c
	case 3:
		return fmt.Sprintf("(%d+%d)*%d", a, b, c), (a + b) * c
	case 4:
		return fmt.Sprintf("%d+%d*%d", a, b, c), a + b*c
	case 5:
		return fmt.Sprintf("0x%x/%d", a*7, c), a * 7 / c
	default:
		return fmt.Sprintf("%d%%%d", a, c), a % c
	}
}

func genDataOp(t *rapid.T, dir string, labels []string, first bool, equs []DataOp) DataOp {
	k := rapid.IntRange(0, 9).Draw(t, "opk")
	switch {
	case k == 6 && len(equs) > 0:
		// an EQU constant defined earlier, used as it stands (its value is the model's value)
		return equs[rapid.IntRange(0, len(equs)-1).Draw(t, "equref")]
	case k <= 3:
		var v int64
		if rapid.Bool().Draw(t, "vb") {
			v = rapid.SampledFrom(dataBoundary).Draw(t, "vbv")
		} else {
			v = rapid.Int64Range(-70000, 70000).Draw(t, "vu")
		}
		style := rapid.IntRange(0, 3).Draw(t, "vstyle")
		if style == 3 && v >= 0 {
			// decimal with leading zeros is still decimal (NASK has no octal notation)
			return DataOp{Kind: "num", Val: v, Text: fmt.Sprintf("0%d", v)}
		}
		return DataOp{Kind: "num", Val: v, Text: renderImm(v, style%3)}
	case k == 4:
		txt, v := genConstExprSmall(t)
		return DataOp{Kind: "num", Val: v, Text: txt}
	case k == 5 && dir == "db":
		s := rapid.StringMatching(`[a-zA-Z0-9 ,;#'.:!?+*/()=<>_-]{0,12}`).Draw(t, "str")
		// one string in five holds text beyond ASCII: its bytes (as the source file holds them) are data like any other
		if rapid.IntRange(0, 4).Draw(t, "nonascii") == 0 {
			s += rapid.SampledFrom([]string{"\u00e9", "\u65e5\u672c", "\uff76\uff85", "\u20ac", "\U0001F600", "\u00ff", "caf\u00e9 au lait"}).Draw(t, "strx")
		}
		return DataOp{Kind: "str", Str: s, Text: `"` + s + `"`}
	case k == 7 && len(labels) > 0:
		l := labels[rapid.IntRange(0, len(labels)-1).Draw(t, "lref")]
		return DataOp{Kind: "label", Ref: l, Text: l}
	case k == 8 && first:
		return DataOp{Kind: "dollar", Text: "$"}
	}
	v := rapid.Int64Range(0, 255).Draw(t, "vsmall")
	return DataOp{Kind: "num", Val: v, Text: renderImm(v, 0)}
}

var propC05 = &Prop[DataCase]{
	ID:   "C05",
	Rule: "programs of data directives: DB/DW/DD with 1..64 operands (one DB in eight padded to emit exactly 63..1024 bytes around the powers of two) mixing numbers (negative, boundary, out of range), constant expressions, strings (ASCII and UTF-8 text) and single characters (DB), earlier labels, earlier EQU constants and $; RESB n and RESB addr-$; ALIGNB n; interleaved EQU, labels, GLOBAL/EXTERN and bracket directives, and up to two out-of-reach Jcc lines that force a second assembly round; ORG aligned and unaligned; oracle: reference model of the directives written from the property text (little-endian low bits, strings byte for byte, n zeros, minimal padding of the address), plus location counter = bytes emitted; non-trivial = accepted and a list of >= 2 operands, a string, an expression or padding; distinct by source text. The enumeration is the complete ALIGNB grid (7 units x 64 residues x 4 origins).",
	Gen: func(t *rapid.T) DataCase {
		c := DataCase{Org: rapid.SampledFrom([]int64{-1, 0, 0x100, 0x7c00, 0x7c01, 0xc203, 0xfffc, 0x10000, 0x280000}).Draw(t, "org"), Mode: rapid.SampledFrom([]int{0, 16, 32}).Draw(t, "mode")}
		used := map[string]bool{}
		var labels []string
		var equs []DataOp
		nwiden := 0
		n := rapid.IntRange(1, 10).Draw(t, "nlines")
		for i := 0; i < n; i++ {
			switch k := rapid.IntRange(0, 13).Draw(t, "lk"); {
			case k <= 6:
				dir := rapid.SampledFrom([]string{"db", "db", "dw", "dd"}).Draw(t, "dir")
				m := rapid.IntRange(1, 6).Draw(t, "nops")
				if rapid.IntRange(0, 19).Draw(t, "long") == 0 {
					m = rapid.IntRange(30, 64).Draw(t, "nopsl")
				}
				l := DataLine{Kind: dir}
				for j := 0; j < m; j++ {
					l.Ops = append(l.Ops, genDataOp(t, dir, labels, j == 0, equs))
				}
				// one DB statement in eight is padded with a string so that it emits exactly a chosen number of
				// bytes around a power of two (whoever splits or buffers long statements does it at such sizes)
				if dir == "db" && rapid.IntRange(0, 7).Draw(t, "exact") == 3 {
					target := rapid.SampledFrom([]int{63, 64, 65, 127, 128, 129, 191, 192, 193, 255, 256, 257, 320, 511, 512, 513, 1024}).Draw(t, "exactn")
					have := 0
					for _, o := range l.Ops {
						if o.Kind == "str" {
							have += len(o.Str)
						} else {
							have++
						}
					}
					if have < target {
						pad := strings.Repeat("abcdefghijklmnopqrstuvwxyz0123456789", (target-have)/36+1)[:target-have]
						l.Ops = append(l.Ops, DataOp{Kind: "str", Str: pad, Text: `"` + pad + `"`})
					}
				}
				c.Lines = append(c.Lines, l)
			case k == 7:
				nn := int64(rapid.SampledFrom([]int{0, 1, 2, 3, 5, 16, 18, 127, 128, 255, 256, 1000, 4600}).Draw(t, "resb"))
				txt := fmt.Sprintf("%d", nn)
				if rapid.Bool().Draw(t, "resbexpr") && nn >= 2 {
					txt = fmt.Sprintf("%d+%d", nn-nn/2, nn/2)
				}
				c.Lines = append(c.Lines, DataLine{Kind: "resb", N: nn, Text: txt})
			case k == 8:
				// RESB target-$ with a target some way ahead of any address generated so far
				img, _ := refData(&c)
				org := c.Org
				if org < 0 {
					org = 0
				}
				cur := org + int64(len(img))
				c.Lines = append(c.Lines, DataLine{Kind: "resbto", N: cur + int64(rapid.SampledFrom([]int{0, 1, 2, 17, 254, 510}).Draw(t, "ahead"))})
			case k == 9:
				c.Lines = append(c.Lines, DataLine{Kind: "alignb", N: int64(rapid.SampledFrom([]int{1, 2, 4, 8, 16, 32, 64}).Draw(t, "alignb"))})
			case k == 10 && nwiden < 2 && rapid.Bool().Draw(t, "widen"):
				c.Lines = append(c.Lines, DataLine{Kind: "widen", N: int64(nwiden)})
				nwiden++
			case k == 10:
				nm := genName(t, "equn", used)
				txt, val := genConstExprSmall(t)
				if rapid.Bool().Draw(t, "equbig") {
					val = rapid.SampledFrom([]int64{0x1234, 0x12345678, 0xff, 0x100, 0xffff, 0x10000, -1, -256, 0x80}).Draw(t, "equbigv")
					txt = renderImm(val, 1)
				}
				c.Lines = append(c.Lines, DataLine{Kind: "equ", Name: nm, Text: txt})
				equs = append(equs, DataOp{Kind: "num", Val: val, Text: nm})
			case k == 11:
				d := rapid.SampledFrom([]string{"\tGLOBAL %s", "\tEXTERN %s", "[SECTION .text]", "[INSTRSET \"i486p\"]", "[FILE \"data.nas\"]", "[OPTIMIZE 1]"}).Draw(t, "dirt")
				if strings.Contains(d, "%s") {
					d = fmt.Sprintf(d, genName(t, "gn", used))
				}
				c.Lines = append(c.Lines, DataLine{Kind: "dir", Text: d})
			default:
				nm := genName(t, "ln", used)
				labels = append(labels, nm)
				c.Lines = append(c.Lines, DataLine{Kind: "label", Name: nm}, DataLine{Kind: "dw", Ops: []DataOp{{Kind: "label", Ref: nm, Text: nm}}})
			}
		}
		// observe the location counter at the end
		c.Lines = append(c.Lines, DataLine{Kind: "label", Name: "qend"}, DataLine{Kind: "dd", Ops: []DataOp{{Kind: "label", Ref: "qend", Text: "qend"}, {Kind: "num", Val: 0x5a, Text: "0x5a"}}})
		return c
	},
	Check: checkC05,
	Enum: func(tier string, yield func(DataCase)) bool {
		for _, org := range []int64{-1, 0x7c00, 0x7c01, 0xc203} {
			for _, n := range []int64{1, 2, 4, 8, 16, 32, 64} {
				for r := int64(0); r < 64; r++ {
					c := DataCase{Org: org}
					if r > 0 {
						c.Lines = append(c.Lines, DataLine{Kind: "resb", N: r, Text: fmt.Sprintf("%d", r)})
					}
					c.Lines = append(c.Lines, DataLine{Kind: "alignb", N: n}, DataLine{Kind: "label", Name: "qa"},
						DataLine{Kind: "dw", Ops: []DataOp{{Kind: "label", Ref: "qa", Text: "qa"}, {Kind: "num", Val: 1, Text: "1"}}})
					yield(c)
				}
			}
		}
		return true
	},
}

func TestC05(t *testing.T) { Run(t, propC05) }
