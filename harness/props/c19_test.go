package props

import (
	"bytes"
	"encoding/hex"
	"fmt"
	"os"
	"path/filepath"
	"regexp"
	"strings"
	"testing"

	"github.com/HobbyOSs/gosk/verifharness/asm"
	"golang.org/x/text/encoding/japanese"
	"pgregory.net/rapid"
)

// ---------------------------------------------------------------------------
// C19 — command-line contract: exit status, output file, source encoding.

type CLICase struct {
	Kind string `json:"kind"` // argv | prog | comment | failing
	// argv
	Args  []string `json:"args,omitempty"` // symbolic: SRC, DST, MISSING, DIR, UNDERFILE, NODIR/x, LIST, -d
	Coff  bool     `json:"coff,omitempty"` // argv: the source is a WCOFF program (the object writer opens the file itself)
	Debug bool     `json:"debug,omitempty"`
	// prog / comment / failing
	Src      string   `json:"src,omitempty"`
	Comments []string `json:"comments,omitempty"` // one per source line ("" = none), UTF-8 text
	Enc      string   `json:"enc,omitempty"`      // sjis | utf8
	Prefill  int      `json:"prefill,omitempty"`  // bytes of junk in the destination before a failing run
	// comment: Preamble bytes of ASCII-only comment lines come first (encoding detection must look at the whole file);
	// LongLine > 0: one ASCII comment line of that many bytes is inserted after the first line; EOL is the line ending
	Preamble int    `json:"preamble,omitempty"`
	LongLine int    `json:"longline,omitempty"`
	EOL      string `json:"eol,omitempty"`
	// sjisstr: Strs are the texts of DB string operands; the file holds them Shift_JIS encoded
	Strs []string `json:"strs,omitempty"`
}

var posRe = regexp.MustCompile(`[0-9]+:[0-9]+`)

func cliDir() string {
	d := filepath.Join(asm.TmpDir(), "cli")
	os.MkdirAll(d, 0o755)
	return d
}

const goodSrc = "\tORG 0x7c00\n\tMOV AX,1\nlbl:\n\tJMP lbl\n\tDB \"ok\"\n"
const goodCoffSrc = "[FORMAT \"WCOFF\"]\n[BITS 32]\n[FILE \"a.nas\"]\n\tGLOBAL _f\n[SECTION .text]\n_f:\n\tMOV EAX,1\n\tRET\n"

func checkC19(c CLICase) Verdict {
	v := Verdict{Class: c.Kind}
	if asm.GoskPath() == "" {
		v.Skip = "binary not available"
		return v
	}
	dir := cliDir()
	fail := func(kind, f string, a ...any) Verdict {
		v.Fail = fmt.Sprintf(f, a...)
		v.Sig = "C19|" + c.Kind + "|" + kind
		return v
	}
	switch c.Kind {
	case "argv":
		v.Key = fmt.Sprintf("argv|%v|", c.Coff) + strings.Join(c.Args, " ")
		src := filepath.Join(dir, "a-src.nas")
		dst := filepath.Join(dir, "a-dst.bin")
		reg := filepath.Join(dir, "a-regular")
		sub := filepath.Join(dir, "a-subdir")
		theSrc := goodSrc
		if c.Coff {
			theSrc = goodCoffSrc
		}
		os.WriteFile(src, []byte(theSrc), 0o644)
		os.WriteFile(reg, []byte("x"), 0o644)
		os.MkdirAll(sub, 0o755)
		os.Remove(dst)
		var args []string
		npos := 0
		var first, second string
		for _, a := range c.Args {
			var real string
			switch a {
			case "-d":
				args = append(args, "-d")
				continue
			case "SRC":
				real = src
			case "DST":
				real = dst
			case "MISSING":
				real = filepath.Join(dir, "a-does-not-exist.nas")
			case "DIR":
				real = sub
			case "UNDERFILE":
				real = filepath.Join(reg, "out.bin")
			case "NODIR":
				real = filepath.Join(dir, "a-no-such-dir", "out.bin")
			case "LIST":
				real = filepath.Join(dir, "a-list.lst")
			default:
				real = a
			}
			npos++
			if npos == 1 {
				first = a
			}
			if npos == 2 {
				second = a
			}
			args = append(args, real)
		}
		// flags must precede positional arguments for Go's flag package; the generator puts -d first
		r := asm.RunCLI(dir, args...)
		if r.Err != nil {
			v.Skip = "binary did not run: " + r.Err.Error()
			return v
		}
		want := 0
		switch {
		case npos < 2:
			want = 16
		case first != "SRC":
			want = 17 // MISSING, DIR, ... as the source: cannot be read
		case second != "DST" && second != "LIST":
			want = 17 // the output cannot be created
		}
		if r.Exit != want {
			return fail(fmt.Sprintf("exit|want=%d", want), "gosk %s exits %d, the contract says %d (stdout %q, stderr tail %q)", strings.Join(c.Args, " "), r.Exit, want, head([]byte(r.Stdout), 120), tailStr(r.Stderr, 160))
		}
		if want == 0 {
			out := dst
			if second == "LIST" {
				out = filepath.Join(dir, "a-list.lst")
			}
			got, _ := os.ReadFile(out)
			ref := asm.Assemble(theSrc)
			os.Remove(out)
			if !bytes.Equal(got, ref.Out) {
				return fail("bytes", "gosk %s exits 0 but the output file holds % x, the image is % x", strings.Join(c.Args, " "), head(got, 24), head(ref.Out, 24))
			}
		}
		v.NonTrivial = true
		v.Sample = map[string]any{"argv": c.Args, "exit": r.Exit}
		return v

	case "prog":
		v.Key = "prog|" + c.Src
		in := filepath.Join(dir, "p-src.nas")
		dst := filepath.Join(dir, "p-dst.bin")
		os.WriteFile(in, []byte(c.Src), 0o644)
		os.Remove(dst)
		if c.Prefill > 0 {
			// the destination already exists and is longer than any image generated here
			os.WriteFile(dst, bytes.Repeat([]byte{0xde, 0xad, 0xbe, 0xef}, c.Prefill/4+1), 0o644)
		}
		args := []string{in, dst}
		if c.Debug {
			args = append([]string{"-d"}, args...)
		}
		r := asm.RunCLI(dir, args...)
		if r.Err != nil {
			v.Skip = "binary did not run: " + r.Err.Error()
			return v
		}
		ref := asm.Assemble(c.Src)
		if ref.Panic != "" {
			v.Skip = "in-process panic (C13 decides)"
			return v
		}
		if ref.ParseErr != "" {
			if r.Exit == 0 {
				return fail("parse-exit", "the source does not parse (%s) but gosk exits 0", ref.ParseErr)
			}
			if !posRe.MatchString(r.Stdout + r.Stderr) {
				return fail("parse-pos", "parse error without a line:col position: %q", head([]byte(r.Stdout+r.Stderr), 200))
			}
			v.NonTrivial = true
			return v
		}
		if r.Exit != 0 {
			return fail("exit", "the source assembles in-process but the binary exits %d: %s", r.Exit, tailStr(r.Stdout+r.Stderr, 200))
		}
		got, _ := os.ReadFile(dst)
		os.Remove(dst)
		if !bytes.Equal(got, ref.Out) {
			return fail("bytes", "binary and in-process API disagree: file has %d bytes (% x), API %d bytes (% x)\n%s", len(got), head(got, 24), len(ref.Out), head(ref.Out, 24), head([]byte(c.Src), 600))
		}
		v.NonTrivial = true
		v.Sample = map[string]any{"source": string(head([]byte(c.Src), 200)), "bytes": len(got)}
		return v

	case "comment":
		lines := strings.Split(strings.TrimRight(c.Src, "\n"), "\n")
		var sb bytes.Buffer
		enc := japanese.ShiftJIS.NewEncoder()
		ncom := 0
		for i, l := range lines {
			sb.WriteString(l)
			if i < len(c.Comments) && c.Comments[i] != "" {
				txt := c.Comments[i]
				var raw []byte
				if c.Enc == "raw" {
					// arbitrary bytes (hex-encoded in the case): unassigned / user-defined Shift_JIS codes, lone lead
					// bytes, U+FFFD and other sequences neither decoder maps cleanly
					raw, _ = hex.DecodeString(txt)
				} else if c.Enc == "sjis" {
					b, err := enc.Bytes([]byte(txt))
					if err != nil {
						v.Skip = "text not representable in Shift_JIS"
						return v
					}
					raw = b
				} else {
					raw = []byte(txt)
				}
				if bytes.ContainsAny(raw, "\n\r") {
					v.Skip = "comment holds a line break"
					return v
				}
				sb.WriteString(" ; ")
				sb.Write(raw)
				ncom++
			}
			sb.WriteString("\n")
		}
		body := sb.Bytes()
		if c.LongLine > 0 {
			nl := bytes.IndexByte(body, '\n') + 1
			banner := append([]byte("; "), bytes.Repeat([]byte("-="), c.LongLine/2)...)
			body = append(append(append([]byte{}, body[:nl]...), append(banner, '\n')...), body[nl:]...)
		}
		if c.Preamble > 0 {
			var pre bytes.Buffer
			for pre.Len() < c.Preamble {
				pre.WriteString("; ---------------------------------------------------------------- ascii only\n")
			}
			body = append(pre.Bytes(), body...)
		}
		if c.EOL != "" && c.EOL != "\n" {
			body = bytes.ReplaceAll(body, []byte("\n"), []byte(c.EOL))
		}
		sb.Reset()
		sb.Write(body)
		v.Key = fmt.Sprintf("comment|%s|%d|%d|%q|", c.Enc, c.Preamble, c.LongLine, c.EOL) + string(head(body, 4000)) + fmt.Sprint(hash64(string(body)))
		in := filepath.Join(dir, "c-src.nas")
		dst := filepath.Join(dir, "c-dst.bin")
		os.WriteFile(in, sb.Bytes(), 0o644)
		os.Remove(dst)
		r := asm.RunCLI(dir, in, dst)
		if r.Err != nil {
			v.Skip = "binary did not run"
			return v
		}
		ref := asm.Assemble(c.Src)
		if ref.Failed() {
			v.Skip = "comment-free form does not assemble"
			return v
		}
		if r.Exit != 0 {
			return fail("exit|"+c.Enc, "the comment-free source assembles, with %s comments the binary exits %d: %s\n--- source (quoted) ---\n%q", c.Enc, r.Exit, tailStr(r.Stdout+r.Stderr, 200), head(sb.Bytes(), 500))
		}
		got, _ := os.ReadFile(dst)
		os.Remove(dst)
		if !bytes.Equal(got, ref.Out) {
			return fail("bytes|"+c.Enc, "%s comments change the output: %d bytes (% x) instead of %d (% x)\n--- source (quoted) ---\n%q", c.Enc, len(got), head(got, 24), len(ref.Out), head(ref.Out, 24), head(sb.Bytes(), 500))
		}
		v.NonTrivial = ncom > 0
		v.Class = "comment-" + c.Enc
		if c.Preamble > 0 || c.LongLine > 0 {
			v.Class += ",big"
		}
		if c.EOL != "" && c.EOL != "\n" {
			v.Class += fmt.Sprintf(",eol=%q", c.EOL)
		}
		v.Sample = map[string]any{"enc": c.Enc, "source_quoted": fmt.Sprintf("%q", head(sb.Bytes(), 200))}
		return v

	case "sjisstr":
		// string operands are data "byte for byte": a Shift_JIS source must yield its strings' Shift_JIS bytes
		enc := japanese.ShiftJIS.NewEncoder()
		var file, ref bytes.Buffer
		file.WriteString(c.Src)
		ref.WriteString(c.Src)
		for _, txt := range c.Strs {
			b, err := enc.Bytes([]byte(txt))
			if err != nil || bytes.ContainsAny(b, "\"\\\n\r") {
				v.Skip = "text not representable in Shift_JIS or holding a quote/backslash byte"
				return v
			}
			file.WriteString("\tDB \"")
			file.Write(b)
			file.WriteString("\",0\n")
			ref.WriteString("\tDB ")
			for _, x := range b {
				fmt.Fprintf(&ref, "0x%02x,", x)
			}
			ref.WriteString("0\n")
		}
		v.Key = "sjisstr|" + ref.String()
		in := filepath.Join(dir, "s-src.nas")
		dst := filepath.Join(dir, "s-dst.bin")
		os.WriteFile(in, file.Bytes(), 0o644)
		os.Remove(dst)
		r := asm.RunCLI(dir, in, dst)
		if r.Err != nil {
			v.Skip = "binary did not run"
			return v
		}
		want := asm.Assemble(ref.String())
		if want.Failed() {
			v.Skip = "byte-list form does not assemble"
			return v
		}
		if r.Exit != 0 {
			return fail("exit", "a source with Shift_JIS string literals: the binary exits %d: %s", r.Exit, tailStr(r.Stdout+r.Stderr, 200))
		}
		got, _ := os.ReadFile(dst)
		os.Remove(dst)
		if !bytes.Equal(got, want.Out) {
			kind := "bytes"
			// the strings re-encoded as UTF-8: the recorded finding
			var utf bytes.Buffer
			utf.WriteString(c.Src)
			for _, txt := range c.Strs {
				utf.WriteString("\tDB \"" + txt + "\",0\n")
			}
			if u := asm.Assemble(utf.String()); !u.Failed() && bytes.Equal(u.Out, got) {
				kind = "transcoded-to-utf8"
			}
			return fail(kind, "Shift_JIS string literals are not emitted byte for byte: file holds % x, the source's string bytes give % x\n--- source (quoted) ---\n%q", head(got, 40), head(want.Out, 40), head(file.Bytes(), 300))
		}
		v.NonTrivial = len(c.Strs) > 0
		return v

	case "failing":
		v.Key = fmt.Sprintf("failing|%d|%s", c.Prefill, c.Src)
		in := filepath.Join(dir, "f-src.nas")
		dst := filepath.Join(dir, "f-dst.bin")
		os.WriteFile(in, []byte(c.Src), 0o644)
		junk := bytes.Repeat([]byte{0xde, 0xad, 0xbe, 0xef}, (c.Prefill+3)/4)[:c.Prefill]
		if c.Prefill > 0 {
			os.WriteFile(dst, junk, 0o644)
		} else {
			os.Remove(dst)
		}
		r := asm.RunCLI(dir, in, dst)
		if r.Err != nil {
			v.Skip = "binary did not run"
			return v
		}
		got, err := os.ReadFile(dst)
		os.Remove(dst)
		if r.Exit == 0 {
			v.Skip = "run did not fail"
			return v
		}
		// after a failing run: absent, empty, or what it held before — never a non-empty partial image
		if err == nil && len(got) > 0 && !bytes.Equal(got, junk) {
			return fail("partial", "exit %d, but the destination now holds %d bytes (% x) - neither empty nor its previous contents", r.Exit, len(got), head(got, 24))
		}
		v.NonTrivial = true
		v.Sample = map[string]any{"exit": r.Exit, "dest_bytes_after": len(got)}
		return v
	}
	v.Skip = "unknown kind"
	return v
}

func tailStr(s string, n int) string {
	if len(s) > n {
		return s[len(s)-n:]
	}
	return s
}

// Japanese text: double-byte characters whose Shift_JIS trail byte is 0x5c ('\')
// (ソ 表 能 予 十 貼) or 0x7c (ポ), half-width katakana, ordinary kana/kanji.
var jpTexts = []string{"ソフトウェア", "表示する", "機能一覧", "予定", "十", "ポート番号", "ｶﾀｶﾅ ﾊﾝｶｸ", "ブートセクタ", "読み込み開始", "ＦＡＴ１２フォーマットフロッピーディスクのための記述", "能", "噂", "申請", "構造", "暴走", "ソ", "ｱ", "表", "次の行へ", "ｿ", "ﾎﾟ", "あいうえお", "データ", "終わり", "ﾀｲ", "ﾀｲﾏｰ", "ﾁｬﾀｲ", "ﾄｰ", "ｿﾞｰﾝ"}

var failingSrcs = []string{"\tMOV AX,\n", "\tMOV AX,1\n\tGARBAGE here\n", "\tDB \"unterminated\n", "lbl\n\tMOV AX,1\n", "\t[BITS\n", "\tMOV AX,1\n\tJMP {{.x}}\n", "\tDB 1,2,3\n\tMOV AX,(\n", "\tDB 1,2\n\tDB 99999999999999999999\n", "\tDD 0xfffffffffffffffffffff\n\tNOP\n"}

var propC19 = &Prop[CLICase]{
	ID:     "C19",
	Rule:   "runs of the gosk binary: argument vectors of 0..4 positional arguments (+ -d) over existing source / destination, missing file, directory, path below a regular file, path in a missing directory, list file; generated programs (C03/C05/C08 generators, with and without -d) compared with the in-process API; sources whose comments hold Shift_JIS or UTF-8 Japanese text (trail bytes 0x5c/0x7c, half-width katakana) versus the comment-free source, also behind 1..66 KiB of ASCII-only lines, with a 5/70 KiB comment line, and with LF/CRLF/CR line endings; degenerate sources (empty, line breaks only, comments only); UTF-8 sources with string data in which a multi-byte character lies across a power-of-two offset (512 .. 65536); three long programs (20 000 and 40 000 statements, 3 000 labels); sources whose DB strings are Shift_JIS text versus the same bytes written as numbers; failing runs into an absent or pre-filled destination; oracle: exit 16 for < 2 positional arguments, 17 for unreadable source or uncreatable output, non-zero plus a line:col position on a parse error, exit 0 and file = exact image otherwise, commented = uncommented, after a failing run the destination is absent, empty or unchanged; non-trivial = the binary ran and a contract clause applied; distinct by case text",
	Assume: []string{"the sandbox runs as root, so permission bits cannot make a path unwritable; 'a directory', 'a path below a regular file' and 'a path in a missing directory' stand in for unwritable destinations"},
	Gen: func(t *rapid.T) CLICase {
		switch rapid.IntRange(0, 9).Draw(t, "kind") {
		case 0, 1, 2:
			n := rapid.IntRange(0, 4).Draw(t, "npos")
			var args []string
			if rapid.IntRange(0, 3).Draw(t, "dflag") == 0 {
				args = append(args, "-d")
			}
			for i := 0; i < n; i++ {
				var a string
				switch i {
				case 0:
					a = rapid.SampledFrom([]string{"SRC", "SRC", "SRC", "MISSING", "DIR", "UNDERFILE"}).Draw(t, "a0")
				case 1:
					a = rapid.SampledFrom([]string{"DST", "DST", "DST", "DIR", "UNDERFILE", "NODIR"}).Draw(t, "a1")
				default:
					a = rapid.SampledFrom([]string{"LIST", "MISSING", "DST"}).Draw(t, "an")
				}
				args = append(args, a)
			}
			return CLICase{Kind: "argv", Args: args, Coff: rapid.IntRange(0, 2).Draw(t, "coffsrc") == 0}
		case 3, 4, 5:
			var src string
			switch rapid.IntRange(0, 3).Draw(t, "pk") {
			case 0:
				c := genCoffCase(t)
				src = c.source(true)
			case 1:
				c := propC05.Gen(t)
				src = c.source()
			default:
				p := genLabelProg(t, rapid.SampledFrom([]int{0, 16, 32}).Draw(t, "mode"), rapid.SampledFrom(orgSet).Draw(t, "org"), true)
				src = p.Source()
			}
			if rapid.IntRange(0, 5).Draw(t, "breakit") == 0 {
				src += rapid.SampledFrom(failingSrcs).Draw(t, "broken")
			}
			if rapid.IntRange(0, 7).Draw(t, "straddle") == 0 {
				// a multi-byte character lies across a power-of-two offset of a UTF-8 source that also holds UTF-8
				// string data (whoever sniffs the encoding from a prefix of the file must not cut a character in two)
				n := rapid.SampledFrom([]int{512, 1024, 2048, 4096, 8192, 16384, 32768, 65536}).Draw(t, "straddlen")
				k := rapid.IntRange(1, 2).Draw(t, "straddlek")
				var sb strings.Builder
				for sb.Len()+130 < n-k {
					sb.WriteString("; ------------------------------------------------------------\n")
				}
				sb.WriteString("; " + strings.Repeat("x", n-k-sb.Len()-2))
				sb.WriteString("\u65e5\u672c\u8a9e \u00e9\n\tDB \"\u65e5\u672c\",1\n\tMOV AX,1 ; \u7d42\u308f\u308a\n\tDB \"caf\u00e9\"\n")
				src = sb.String()
			}
			if rapid.IntRange(0, 9).Draw(t, "tiny") == 0 {
				// degenerate programs: nothing at all, only line breaks, only comments
				src = rapid.SampledFrom([]string{"", "\n", "\n\n", "; nothing\n", "# nothing", " \t\n", "\r\n", "\tHLT", "\tHLT\n", "fin:\n", "\tNOP\nfin:\n", "fin:\n\n\n", "\tNOP\n\x1a", "fin: ; last\n"}).Draw(t, "tinysrc")
			}
			return CLICase{Kind: "prog", Src: src, Debug: rapid.IntRange(0, 4).Draw(t, "debug") == 0, Prefill: rapid.SampledFrom([]int{0, 0, 70000, 200000}).Draw(t, "pprefill")}
		case 6, 7, 8:
			p := genLabelProg(t, rapid.SampledFrom([]int{0, 16, 32}).Draw(t, "mode"), rapid.SampledFrom(orgSet).Draw(t, "org"), false)
			src := p.Source()
			n := strings.Count(src, "\n")
			coms := make([]string, n)
			for i := range coms {
				if rapid.IntRange(0, 2).Draw(t, "hascom") == 0 {
					k := rapid.IntRange(1, 3).Draw(t, "nwords")
					var ws []string
					for j := 0; j < k; j++ {
						ws = append(ws, rapid.SampledFrom(jpTexts).Draw(t, "jp"))
					}
					coms[i] = strings.Join(ws, rapid.SampledFrom([]string{"", " ", "、"}).Draw(t, "sep"))
				}
			}
			enc := rapid.SampledFrom([]string{"sjis", "utf8", "raw"}).Draw(t, "enc")
			// one file in five: every comment consists of byte pairs that are shaped like UTF-8 sequences without
			// being UTF-8 (half-width katakana pairs in Shift_JIS): the decision between the two encodings is made
			// on the whole file
			// one file in six: every line carries a long comment of half-width katakana (one byte each in Shift_JIS,
			// three in UTF-8: the decoded text is far longer than the file)
			if rapid.IntRange(0, 5).Draw(t, "dense") == 0 {
				for i := range coms {
					coms[i] = strings.Repeat("ｱｲｳｴｵｶｷｸｹｺｻｼｽｾｿﾀﾁﾂﾃﾄ", rapid.IntRange(1, 6).Draw(t, "densek"))
				}
			}
			shaped := rapid.IntRange(0, 4).Draw(t, "shapedonly") == 0
			if shaped && enc == "sjis" {
				for i := range coms {
					if coms[i] != "" {
						coms[i] = rapid.SampledFrom([]string{"ﾀｲ", "ﾀｲﾏｰ", "ﾁｬﾀｲ", "ﾀｲ ﾁｬ", "ﾁｬ"}).Draw(t, "shapedjp")
					}
				}
			}
			if enc == "raw" {
				for i := range coms {
					if coms[i] == "" {
						continue
					}
					var b []byte
					for k := rapid.IntRange(1, 8).Draw(t, "rawn"); k > 0; k-- {
						rk := rapid.IntRange(0, 5).Draw(t, "rawk")
						if shaped {
							rk = 4
						}
						switch rk {
						case 0: // user-defined / unassigned double-byte area
							b = append(b, byte(rapid.IntRange(0xf0, 0xfc).Draw(t, "rl")), byte(rapid.SampledFrom([]int{0x40, 0x5c, 0x7c, 0x7e, 0x80, 0xfc}).Draw(t, "rt")))
						case 1: // lone lead byte
							b = append(b, byte(rapid.SampledFrom([]int{0x81, 0x9f, 0xe0, 0xfc, 0x80, 0xa0, 0xfd, 0xff}).Draw(t, "rlone")))
						case 2: // U+FFFD and friends in UTF-8
							b = append(b, []byte(rapid.SampledFrom([]string{"\uFFFD", "\u00e9", "\U0001F600", "\u200b"}).Draw(t, "ru"))...)
						case 3:
							b = append(b, byte(rapid.IntRange(0x20, 0xff).Draw(t, "rany")))
						case 4: // shaped like UTF-8 (lead + continuation bytes) without being UTF-8: overlong forms, surrogates,
							// beyond U+10FFFF - half-width katakana pairs and some kanji look like this in Shift_JIS
							b = append(b, rapid.SampledFrom([][]byte{{0xc0, 0xb2}, {0xc1, 0xac}, {0xc0, 0xb2, 0xcf, 0xb0}, {0xe0, 0x80, 0x80}, {0xe0, 0x9f, 0xbf}, {0xed, 0xa0, 0x80}, {0xf0, 0x80, 0x80, 0x80}, {0xf4, 0x90, 0x80, 0x80}, {0xc4, 0xb0}, {0xdf, 0xbf}}).Draw(t, "rshape")...)
						default:
							b = append(b, []byte(rapid.SampledFrom([]string{"\\", "|", "~", "ｿ", ";", "#"}).Draw(t, "rascii"))...)
						}
					}
					coms[i] = hex.EncodeToString(b)
				}
			}
			if enc != "utf8" {
				// a file is in one encoding: Shift_JIS (or raw) comments go with an ASCII-only program text
				src = strings.Map(func(r rune) rune {
					if r > 0x7e {
						return 'x'
					}
					return r
				}, src)
			}
			cc := CLICase{Kind: "comment", Src: src, Comments: coms, Enc: enc}
			if rapid.IntRange(0, 3).Draw(t, "big") == 0 {
				cc.Preamble = rapid.SampledFrom([]int{0, 1100, 4200, 66000}).Draw(t, "preamble")
				cc.LongLine = rapid.SampledFrom([]int{0, 0, 5000, 70000}).Draw(t, "longline")
			}
			cc.EOL = rapid.SampledFrom([]string{"\n", "\n", "\r\n", "\r"}).Draw(t, "ceol")
			return cc
		case 9:
			if rapid.Bool().Draw(t, "sjisstr") {
				var strs []string
				for k := rapid.IntRange(1, 3).Draw(t, "nstrs"); k > 0; k-- {
					strs = append(strs, rapid.SampledFrom(jpTexts).Draw(t, "jpstr"))
				}
				return CLICase{Kind: "sjisstr", Src: "\tORG 0x7c00\n\tMOV SI,qmsg\nqmsg:\n", Strs: strs}
			}
			return CLICase{Kind: "failing", Src: goodSrc + rapid.SampledFrom(failingSrcs).Draw(t, "fsrc"), Prefill: rapid.SampledFrom([]int{0, 3, 64, 4096}).Draw(t, "prefill")}
		default:
			return CLICase{Kind: "failing", Src: goodSrc + rapid.SampledFrom(failingSrcs).Draw(t, "fsrc"), Prefill: rapid.SampledFrom([]int{0, 3, 64, 4096}).Draw(t, "prefill")}
		}
	},
	Check: checkC19,
	// long programs: whatever the command does before it hands the text to the assembler (reading, decoding,
	// limits of the parser it configures) must scale with them
	Enum: func(tier string, yield func(CLICase)) bool {
		yield(CLICase{Kind: "prog", Src: strings.Repeat("\tNOP\n", 20000)})
		yield(CLICase{Kind: "prog", Src: strings.Repeat("\tNOP ; comment\n", 40000)})
		var sb strings.Builder
		for i := 0; i < 3000; i++ {
			fmt.Fprintf(&sb, "L%d:\n\tMOV AX,L%d\n\tJE L%d\n\tDB \"x\",%d\n", i, (i*7)%(i+1), i, i%256)
		}
		yield(CLICase{Kind: "prog", Src: sb.String()})
		return false
	},
}

func TestC19(t *testing.T) { Run(t, propC19) }
