package props

import (
	"bytes"
	"fmt"
	"strings"
	"sync"

	"github.com/HobbyOSs/gosk/verifharness/asm"
	"github.com/HobbyOSs/gosk/verifharness/sem"
	"pgregory.net/rapid"
)

// Item kinds of a generated program.
const (
	ItStmt   = "stmt"   // a statement that emits bytes (instruction or data directive)
	ItLabel  = "label"  // "name:" on its own line
	ItMarker = "marker" // unique 6-byte DB marker; Name = serial
	ItEqu    = "equ"    // "name EQU expr"
	ItDir    = "dir"    // non-emitting directive (GLOBAL, EXTERN, [SECTION ..], ...)
)

type Item struct {
	Kind string `json:"k"`
	Text string `json:"t,omitempty"`
	Name string `json:"n,omitempty"`
	Cls  string `json:"c,omitempty"`
	Ser  int    `json:"s,omitempty"`
	// reference bookkeeping for oracles
	Ref   string `json:"ref,omitempty"`   // label referenced by this statement
	RefAs string `json:"refas,omitempty"` // "mov16","mov32","dw","dd","dollar","jmp","jcc","call"
}

type Prog struct {
	Mode  int    `json:"mode"`          // 0 (no directive), 16, 32
	Org   int64  `json:"org"`           // -1: no ORG statement
	Pre   []Item `json:"pre,omitempty"` // header items before ORG/BITS (comments are layout, not items)
	Items []Item `json:"items"`
}

func (p *Prog) Origin() int64 {
	if p.Org < 0 {
		return 0
	}
	return p.Org
}

func markerBytes(ser int) []byte {
	return []byte{0xf1, 0x4d, 0x4b, byte(ser), byte(ser >> 8), 0xf2}
}

func markerText(ser int) string {
	b := markerBytes(ser)
	return fmt.Sprintf("DB 0x%02x,0x%02x,0x%02x,0x%02x,0x%02x,0x%02x", b[0], b[1], b[2], b[3], b[4], b[5])
}

func (it Item) Render() string {
	switch it.Kind {
	case ItLabel:
		return it.Name + ":"
	case ItMarker:
		return "\t" + markerText(it.Ser)
	case ItEqu:
		return it.Name + "\tEQU\t" + it.Text
	default:
		return "\t" + it.Text
	}
}

func (p *Prog) Header() string {
	var sb strings.Builder
	if p.Org >= 0 {
		fmt.Fprintf(&sb, "\tORG 0x%x\n", p.Org)
	}
	sb.WriteString(sem.Header(p.Mode))
	return sb.String()
}

// BaselineSource is the program without anything but its header and directive lines
// (directives print content-free warnings that are not diagnostics of the program).
func (p *Prog) BaselineSource() string {
	s := p.Header()
	for _, it := range p.Items {
		if it.Kind == ItDir {
			s += it.Render() + "\n"
		}
	}
	return s
}

func (p *Prog) Source() string {
	var sb strings.Builder
	sb.WriteString(p.Header())
	for _, it := range p.Items {
		sb.WriteString(it.Render())
		sb.WriteString("\n")
	}
	return sb.String()
}

// MarkerOffsets returns, per serial, the offset of the marker in out; ok is
// false when some marker does not occur exactly once.
func MarkerOffsets(p *Prog, out []byte) (map[int]int, string) {
	offs := map[int]int{}
	for _, it := range p.Items {
		if it.Kind != ItMarker {
			continue
		}
		mb := markerBytes(it.Ser)
		n := bytes.Count(out, mb)
		if n != 1 {
			return nil, fmt.Sprintf("marker %d occurs %d times", it.Ser, n)
		}
		offs[it.Ser] = bytes.Index(out, mb)
	}
	return offs, ""
}

// ---------------------------------------------------------------------------
// statement catalogue for programs: forms gosk accepts, probed once per mode

var (
	accMu    sync.Mutex
	accCache = map[string]bool{}
)

// accepts reports whether the single statement assembles without diagnostic
// under the mode (cached). Used to build programs from accepted statements
// only, so that whole programs stay inside the properties' domains.
func accepts(mode int, text string) bool {
	key := fmt.Sprintf("%d|%s", mode, text)
	accMu.Lock()
	v, ok := accCache[key]
	accMu.Unlock()
	if ok {
		return v
	}
	r := asm.Assemble(sem.Header(mode) + "\t" + text + "\n")
	v = !asm.Diagnosed(r, asm.Baseline(sem.Header(mode))) && len(r.Out) > 0
	accMu.Lock()
	accCache[key] = v
	accMu.Unlock()
	return v
}

// no-operand mnemonics that are single-byte, mode-independent instructions
var plainNoOperand = []string{"HLT", "NOP", "CLI", "STI", "CLD", "STD", "CLC", "STC", "CMC", "LAHF", "SAHF", "LEAVE", "INTO", "WAIT", "DAA", "DAS", "AAA", "AAS", "RETF", "RETN"}

// supported instruction forms (a subset of InstForms whose mnemonics gosk implements)
func progForms() []form {
	var fs []form
	for _, f := range InstForms() {
		switch f.Mn {
		case "ADC", "SBB", "NEG", "INC", "DEC", "MUL", "DIV", "IDIV":
			continue
		}
		if f.Class == "mov.creg" || f.Class == "imul.r" || f.Class == "shift.rcl" {
			continue
		}
		fs = append(fs, f)
	}
	return fs
}

// genPlainStmt draws one position-independent, label-free statement that is
// accepted under mode. Returns text and class.
func genPlainStmt(t *rapid.T, mode int, allowData bool) (string, string) {
	for tries := 0; tries < 8; tries++ {
		k := rapid.IntRange(0, 9).Draw(t, "skind")
		var text, cls string
		switch {
		case k == 0:
			mn := rapid.SampledFrom(plainNoOperand).Draw(t, "noop")
			text, cls = mn, "noparam"
		case k == 1 && allowData:
			text, cls = genDataStmt(t)
		case k == 2:
			// memory forms from C02's shapes
			cs := carriers()
			c := cs[rapid.IntRange(0, len(cs)-2).Draw(t, "carrier")] // not LGDT
			var sh memShape
			if rapid.Bool().Draw(t, "addr16") {
				s := shapes16()
				sh = s[rapid.IntRange(0, len(s)-1).Draw(t, "shape16")]
			} else {
				s := shapes32()
				sh = s[rapid.IntRange(0, len(s)-1).Draw(t, "shape32")]
			}
			has := rapid.Bool().Draw(t, "hasdisp")
			d := rapid.SampledFrom([]int64{1, -1, 4, 127, 128, -128, -129, 0x1234, 0x7fff}).Draw(t, "disp")
			if !okDisp(sh, d) {
				d = 4
			}
			if sh.Base == "" && sh.Index == "" {
				has, d = true, 0x0ff0
			}
			regs := regsOf(c.Bits)
			reg := regs[rapid.IntRange(0, 7).Draw(t, "reg")]
			var imm sem.Operand
			if c.Other == "imm8" {
				imm = genImm8(t, "imm")
			} else {
				imm = genImm(t, "imm")
			}
			ic := mkMemCase(mode, c, sh, d, has, reg, imm, rapid.IntRange(0, 7).Draw(t, "mstyle"))
			text, cls = ic.St.Render(), "mem."+c.Name
		case k == 3:
			text, cls = fmt.Sprintf("INT %s", renderImm(rapid.SampledFrom([]int64{3, 0x10, 0x13, 0x15, 0x80, 0xff}).Draw(t, "intn"), 1)), "int"
		default:
			fs := progForms()
			f := fs[rapid.IntRange(0, len(fs)-1).Draw(t, "form")]
			text, cls = drawForm(t, f).Render(), f.Class
		}
		if cls == "data" || accepts(mode, text) {
			return text, cls
		}
	}
	return "NOP", "noparam"
}

// genDataStmt draws a DB/DW/DD statement with constant operands.
func genDataStmt(t *rapid.T) (string, string) {
	dir := rapid.SampledFrom([]string{"DB", "DW", "DD"}).Draw(t, "ddir")
	n := rapid.IntRange(1, 5).Draw(t, "dn")
	var parts []string
	for i := 0; i < n; i++ {
		if dir == "DB" && rapid.IntRange(0, 3).Draw(t, "dstr") == 0 {
			str := rapid.StringMatching(`[a-zA-Z0-9 ,;#.!?]{0,9}`).Draw(t, "dstrv")
			if rapid.IntRange(0, 5).Draw(t, "dstrx") == 0 {
				// text beyond ASCII: the number of bytes is not the number of characters
				str += rapid.SampledFrom([]string{"caf\u00e9", "\u65e5\u672c", "\u20ac", "\U0001F600"}).Draw(t, "dstrxv")
			}
			parts = append(parts, `"`+str+`"`)
			continue
		}
		var v int64
		switch dir {
		case "DB":
			v = rapid.Int64Range(0, 255).Draw(t, "dv")
		case "DW":
			v = rapid.Int64Range(0, 65535).Draw(t, "dv")
		default:
			v = rapid.Int64Range(0, 0xffffffff).Draw(t, "dv")
		}
		parts = append(parts, renderImm(v, rapid.IntRange(0, 1).Draw(t, "dstyle")))
	}
	return dir + " " + strings.Join(parts, ","), "data"
}

// safe identifier generator: never starts with an opcode, register or
// reserved word (both grammars test those as prefixes), never contains
// characters that are special to pass 2's templates.
func genName(t *rapid.T, label string, used map[string]bool) string {
	for {
		body := rapid.StringMatching(`[a-z0-9_]{1,10}`).Draw(t, label)
		name := "q" + body // 'q' starts no mnemonic, register or keyword
		if rapid.IntRange(0, 3).Draw(t, label+"_u") == 0 {
			name = "_" + body
		}
		if !used[name] {
			used[name] = true
			return name
		}
	}
}

var orgSet = []int64{-1, 0, 0x100, 0x7c00, 0xc200, 0x8000, 0xfff0}
