package props

import (
	"fmt"
	"testing"

	"github.com/HobbyOSs/gosk/verifharness/sem"
	"pgregory.net/rapid"
)

// displacements of C02's quantifier (nil = none written)
var dispSet = []int64{0, 1, -1, 127, 128, -128, -129, 255, 256, 0x7fff, 0x8000, -0x8000, 0x12345678}

type memShape struct {
	Base, Index string
	Scale       int
}

func shapes16() []memShape {
	return []memShape{{"BX", "SI", 0}, {"BX", "DI", 0}, {"BP", "SI", 0}, {"BP", "DI", 0}, {"SI", "", 0}, {"DI", "", 0}, {"BP", "", 0}, {"BX", "", 0}, {"", "", 0}}
}

func shapes32() []memShape {
	var out []memShape
	bases := append([]string{""}, sem.Regs32...)
	for _, b := range bases {
		out = append(out, memShape{b, "", 0})
		for _, ix := range sem.Regs32 {
			if ix == "ESP" {
				continue
			}
			for _, sc := range []int{1, 2, 4, 8} {
				out = append(out, memShape{b, ix, sc})
			}
		}
	}
	return out
}

// carriers: how the memory operand is used. %M is the memory operand.
type carrier struct {
	Name  string
	Mn    string
	Bits  int    // operand width
	Pos   int    // position of the memory operand
	Other string // "reg", "imm", "imm8", "" (none)
	Typed bool   // memory operand carries a size keyword
}

func carriers() []carrier {
	var cs []carrier
	for _, b := range []int{8, 16, 32} {
		cs = append(cs,
			carrier{"mov.load", "MOV", b, 1, "reg", false},
			carrier{"mov.store", "MOV", b, 0, "reg", false},
			carrier{"mov.storeimm", "MOV", b, 0, "imm", true},
			carrier{"alu.load", "ADD", b, 1, "reg", false},
			carrier{"alu.store", "CMP", b, 0, "reg", false},
			carrier{"alu.imm", "AND", b, 0, "imm", true},
			carrier{"not", "NOT", b, 0, "", true},
			carrier{"shift", "SHL", b, 0, "imm8", true},
		)
	}
	for _, b := range []int{16, 32} {
		cs = append(cs, carrier{"push", "PUSH", b, 0, "", true}, carrier{"pop", "POP", b, 0, "", true})
	}
	cs = append(cs, carrier{"lgdt", "LGDT", 0, 0, "", false})
	return cs
}

func buildMemStmt(c carrier, m sem.Mem, reg string, imm sem.Operand) sem.Stmt {
	if c.Typed {
		m.Size = sizeKw(c.Bits)
	}
	mo := sem.M(m)
	var other *sem.Operand
	switch c.Other {
	case "reg":
		o := sem.R(reg)
		other = &o
	case "imm", "imm8":
		other = &imm
	}
	if other == nil {
		return sem.Stmt{Mn: c.Mn, Ops: []sem.Operand{mo}}
	}
	if c.Pos == 0 {
		return sem.Stmt{Mn: c.Mn, Ops: []sem.Operand{mo, *other}}
	}
	return sem.Stmt{Mn: c.Mn, Ops: []sem.Operand{*other, mo}}
}

func dispClass(d int64, has bool) string {
	switch {
	case !has:
		return "none"
	case d == 0:
		return "0"
	case d >= -128 && d <= 127:
		return "d8"
	case d >= -32768 && d <= 32767:
		return "d16"
	}
	return "d32"
}

func shapeClass(sh memShape) string {
	w := "16"
	if sem.RegBits(sh.Base) == 32 || sem.RegBits(sh.Index) == 32 {
		w = "32"
	}
	switch {
	case sh.Base == "" && sh.Index == "":
		return "abs"
	case sh.Index == "":
		return w + ".base"
	case sh.Base == "":
		return w + ".index"
	}
	return w + ".base+index"
}

func okDisp(sh memShape, d int64) bool {
	is16 := sem.RegBits(sh.Base) == 16 || sem.RegBits(sh.Index) == 16
	if is16 && (d > 0xffff || d < -0x8000) {
		return false
	}
	if sh.Base == "" && sh.Index == "" && d < 0 {
		return false
	}
	return true
}

// memText renders the bracket body in one of several equivalent spellings.
func memText(sh memShape, d int64, has bool, style int) string {
	var parts []string
	if sh.Base != "" {
		parts = append(parts, sh.Base)
	}
	if sh.Index != "" {
		ix := sh.Index
		if sh.Scale > 1 || (sh.Scale == 1 && style%2 == 1) {
			ix = fmt.Sprintf("%s*%d", sh.Index, sh.Scale)
		}
		parts = append(parts, ix)
	}
	s := ""
	for i, p := range parts {
		if i > 0 {
			s += "+"
		}
		s += p
	}
	if !has {
		return s
	}
	if s == "" {
		return fmt.Sprintf("0x%x", d)
	}
	// constant between / before the registers: [BASE-d+INDEX], [BASE+d+INDEX], [d+BASE]
	if style == 6 && sh.Base != "" && sh.Index != "" && sh.Scale <= 1 {
		if d < 0 {
			return fmt.Sprintf("%s-%d+%s", sh.Base, -d, sh.Index)
		}
		return fmt.Sprintf("%s+%d+%s", sh.Base, d, sh.Index)
	}
	if style == 7 && d >= 0 {
		return fmt.Sprintf("%d+%s", d, s)
	}
	switch style / 2 {
	case 1: // split the constant around the registers: [a+REGS+b], a>=0
		if d >= 2 {
			a := d / 2
			return fmt.Sprintf("%d+%s+%d", a, s, d-a)
		}
	case 2: // hex
		if d >= 0 {
			return fmt.Sprintf("%s+0x%x", s, d)
		}
	}
	if d < 0 {
		return fmt.Sprintf("%s-%d", s, -d)
	}
	return fmt.Sprintf("%s+%d", s, d)
}

type MemCase struct {
	InstCase
	Equ int64 `json:"equ,omitempty"` // when non-zero: displacement written through an EQU name
}

func mkMemCase(mode int, c carrier, sh memShape, d int64, has bool, reg string, imm sem.Operand, style int) InstCase {
	// a lone register written without "*1" reads as a base, whatever the generator meant
	if sh.Base == "" && sh.Index != "" && sh.Scale == 1 && style%2 == 0 {
		sh = memShape{Base: sh.Index}
	}
	// an absolute address must be representable at the default address width of the mode
	if sh.Base == "" && sh.Index == "" && sem.ModeOf(mode) == 16 {
		d &= 0xffff
	}
	m := sem.Mem{Base: sh.Base, Index: sh.Index, Scale: sh.Scale, Disp: d, HasDisp: has, Text: memText(sh, d, has, style)}
	if sh.Base == "" && sh.Index == "" {
		m.HasDisp = true
	}
	cls := fmt.Sprintf("%s|%s|disp=%s", c.Name, shapeClass(sh), dispClass(d, m.HasDisp))
	return InstCase{Mode: mode, St: buildMemStmt(c, m, reg, imm), Cls: cls}
}

func checkC02(c InstCase) Verdict {
	v := checkInst("C02", c)
	if v.Key != "" {
		v.Key = c.Cls + "|" + v.Key
	}
	return v
}

var propC02 = &Prop[InstCase]{
	ID:   "C02",
	Rule: "one memory operand (16-bit table shape or 32-bit base/index/scale shape x displacement boundary set or uniform x spelling variant) in a carrier instruction (MOV/ALU load, store, store-immediate, NOT, shift, PUSH, POP, LGDT) x operand width x BITS none/16/32, alone or in a context (second assembly round; twin of the same text under the other mode; before the first directive of a program that later switches to 32 bits); non-trivial = accepted without diagnostic; distinct by (mode setting, carrier, rendered statement)",
	Gen: func(t *rapid.T) InstCase {
		cs := carriers()
		c := cs[rapid.IntRange(0, len(cs)-1).Draw(t, "carrier")]
		var sh memShape
		if rapid.IntRange(0, 3).Draw(t, "addr16") == 0 {
			s := shapes16()
			sh = s[rapid.IntRange(0, len(s)-1).Draw(t, "shape16")]
		} else {
			s := shapes32()
			sh = s[rapid.IntRange(0, len(s)-1).Draw(t, "shape32")]
		}
		has := rapid.IntRange(0, 4).Draw(t, "hasdisp") != 0
		var d int64
		if has {
			if rapid.Bool().Draw(t, "dboundary") {
				d = rapid.SampledFrom(dispSet).Draw(t, "dispb")
			} else {
				switch rapid.IntRange(0, 2).Draw(t, "dclass") {
				case 0:
					d = rapid.Int64Range(-140, 140).Draw(t, "disp")
				case 1:
					d = rapid.Int64Range(-0x8000, 0xffff).Draw(t, "disp")
				default:
					d = rapid.Int64Range(-0x80000000, 0x7fffffff).Draw(t, "disp")
				}
			}
			if !okDisp(sh, d) {
				d = d & 0x7fff
			}
		}
		if sh.Base == "" && sh.Index == "" && (!has || d < 0) {
			has, d = true, (d&0x7fff)+1
		}
		regs := regsOf(c.Bits)
		if c.Bits == 0 {
			regs = sem.Regs16
		}
		reg := regs[rapid.IntRange(0, 7).Draw(t, "reg")]
		var imm sem.Operand
		if c.Other == "imm8" {
			imm = genImm8(t, "imm")
		} else {
			imm = genImm(t, "imm")
		}
		mode := rapid.SampledFrom([]int{0, 16, 32}).Draw(t, "mode")
		style := rapid.IntRange(0, 7).Draw(t, "style")
		mc := mkMemCase(mode, c, sh, d, has, reg, imm, style)
		switch k := rapid.IntRange(0, 7).Draw(t, "ctx"); {
		case k < 2:
			mc.Ctx = "widen"
		case k < 4 && mode != 0:
			mc.Ctx = "twin"
		case k < 4:
			mc.Ctx = "prebits"
		}
		return mc
	},
	Check: checkC02,
	Enum: func(tier string, yield func(InstCase)) bool {
		all := append(shapes16(), shapes32()...)
		k := 0
		for _, c := range carriers() {
			for _, mode := range []int{16, 32} {
				for _, sh := range all {
					if c.Name == "lgdt" && (sh.Index != "" && sh.Scale > 1) {
						continue
					}
					for di := -1; di < len(dispSet); di++ {
						has := di >= 0
						var d int64
						if has {
							d = dispSet[di]
							if !okDisp(sh, d) {
								continue
							}
						} else if sh.Base == "" && sh.Index == "" {
							continue
						}
						k++
						regs := regsOf(c.Bits)
						if c.Bits == 0 {
							regs = sem.Regs16
						}
						reg := regs[k%8]
						imm := immOp([]int64{5, 0x7f, 0x80, -1, 0x1234}[k%5], 1)
						if c.Other == "imm8" {
							imm = immOp([]int64{1, 3, 7, 0x1f}[k%4], 0)
						}
						yield(mkMemCase(mode, c, sh, d, has, reg, imm, 0))
					}
				}
			}
		}
		return true
	},
}

func TestC02(t *testing.T) { Run(t, propC02) }
