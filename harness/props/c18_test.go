package props

import (
	"fmt"
	"testing"

	"github.com/HobbyOSs/gosk/verifharness/asm"
	"github.com/HobbyOSs/gosk/verifharness/sem"
	"pgregory.net/rapid"
)

// ---------------------------------------------------------------------------
// C18 — compact encodings are chosen where the ISA offers them.
// Reference model: the shortest legal length of the instruction classes the
// property lists (prefixes + opcode + minimal ModR/M/SIB/disp + minimal immediate).

func fitsS8(v int64, bits int) bool {
	if v >= -128 && v <= 127 {
		return true
	}
	// the same bit pattern at the operand width, read as a signed value
	m := uint64(v) & (uint64(1)<<uint(bits) - 1)
	s := int64(m)
	if m>>(uint(bits)-1) == 1 {
		s = int64(m) - (int64(1) << uint(bits))
	}
	return s >= -128 && s <= 127
}

// minMem: bytes of ModR/M + SIB + displacement of the shortest encoding of the address.
func minMem(m *sem.Mem, mode int) (n int, addrBits int) {
	addrBits = m.AddrBits()
	if addrBits == 0 {
		addrBits = mode
	}
	d := int64(0)
	if m.HasDisp {
		d = m.Disp
	}
	if m.Base == "" && m.Index == "" {
		return 1 + addrBits/8, addrBits
	}
	if addrBits == 16 {
		switch {
		case d == 0 && !(m.Base == "BP" && m.Index == ""):
			return 1, 16
		case d >= -128 && d <= 127:
			return 2, 16
		}
		return 3, 16
	}
	n = 1
	if m.Index != "" || m.Base == "ESP" {
		n++ // SIB
	}
	switch {
	case m.Base == "":
		n += 4 // index without base: disp32
	case d == 0 && m.Base != "EBP":
	case d >= -128 && d <= 127:
		n++
	default:
		n += 4
	}
	return n, 32
}

// MinLen returns the shortest legal length for the statement classes of C18,
// ok=false for statements outside them.
func MinLen(st sem.Stmt, mode int) (int, bool) {
	bits := sem.OperandBits(st)
	p66 := 0
	if bits != 8 && bits != 0 && bits != mode {
		p66 = 1
	}
	memLen, p67 := 0, 0
	var mem *sem.Mem
	for i := range st.Ops {
		if st.Ops[i].Kind == sem.KMem {
			mem = st.Ops[i].Mem
			var ab int
			memLen, ab = minMem(mem, mode)
			if ab != mode {
				p67 = 1
			}
		}
	}
	isAcc := func(o sem.Operand) bool {
		return o.Kind == sem.KReg && (o.Reg == "AL" || o.Reg == "AX" || o.Reg == "EAX")
	}
	switch st.Mn {
	case "ADD", "OR", "AND", "SUB", "XOR", "CMP", "ADC", "SBB":
		if len(st.Ops) != 2 || st.Ops[1].Kind != sem.KImm {
			return 0, false
		}
		v := st.Ops[1].Imm
		immw := bits / 8
		if bits != 8 && fitsS8(v, bits) {
			immw = 1
		}
		if st.Ops[0].Kind == sem.KReg {
			n := 2 + immw // 80/81/83 /r
			if isAcc(st.Ops[0]) && 1+bits/8 < n {
				n = 1 + bits/8 // accumulator form
			}
			return p66 + n, true
		}
		if mem != nil {
			return p66 + p67 + 1 + memLen + immw, true
		}
	case "MOV":
		if len(st.Ops) != 2 {
			return 0, false
		}
		a, b := st.Ops[0], st.Ops[1]
		switch {
		case a.Kind == sem.KReg && b.Kind == sem.KImm:
			return p66 + 1 + bits/8, true
		case isAcc(a) && b.Kind == sem.KMem && b.Mem.Base == "" && b.Mem.Index == "":
			return p66 + 1 + mode/8, true
		case isAcc(b) && a.Kind == sem.KMem && a.Mem.Base == "" && a.Mem.Index == "":
			return p66 + 1 + mode/8, true
		}
	case "PUSH", "POP":
		if len(st.Ops) == 1 && st.Ops[0].Kind == sem.KReg && sem.RegBits(st.Ops[0].Reg) >= 16 {
			return p66 + 1, true
		}
		// PUSH imm: 6A ib whenever the value lies in -128..127 (valid in both modes); wider values written
		// in the mode's own width take 68 iw/id. Bit patterns such as 0xff80 and values beyond the mode's
		// width are left out (what is pushed then depends on the operand size chosen).
		if st.Mn == "PUSH" && len(st.Ops) == 1 && st.Ops[0].Kind == sem.KImm {
			v := st.Ops[0].Imm
			switch {
			case v >= -128 && v <= 127:
				return 2, true
			case v >= -0x8000 && v <= 0x7fff:
				return 1 + mode/8, true
			}
		}
	}
	return 0, false
}

func checkC18(c InstCase) Verdict {
	mode := sem.ModeOf(c.Mode)
	v := Verdict{Class: c.Cls, Key: fmt.Sprintf("%d|%s", c.Mode, c.St.Render())}
	want, ok := MinLen(c.St, mode)
	if !ok {
		v.Skip = "not a compactable class"
		return v
	}
	r := asm.Assemble(c.Source())
	if asm.Diagnosed(r, asm.Baseline(sem.Header(c.Mode))) {
		v.Skip = "diagnosed"
		return v
	}
	if c.Ctx != "" {
		preSrc, _, _ := c.context()
		pre := asm.Assemble(preSrc)
		if asm.Diagnosed(pre, asm.Baseline(sem.Header(c.Mode))) || len(r.Out) < len(pre.Out) || string(r.Out[:len(pre.Out)]) != string(pre.Out) {
			v.Skip = "context statement alone diagnosed or changed (C14 decides)"
			return v
		}
		r.Out = r.Out[len(pre.Out):]
		v.Key += "|" + c.Ctx
		st.Classes["ctx:"+c.Ctx]++
	}
	if m := sem.Compare(c.St, mode, r.Out); m != nil {
		// meaning is C01's business; C18 needs a correct encoding to talk about its length
		v.Skip = "does not decode to the statement (C01 decides)"
		return v
	}
	if len(r.Out) > want {
		v.Fail = fmt.Sprintf("%q (BITS %d) is encoded in %d bytes (% x); the shortest valid encoding has %d", c.St.Render(), mode, len(r.Out), r.Out, want)
		imm := "none"
		for _, o := range c.St.Ops {
			if o.Kind == sem.KImm {
				switch {
				case sem.OperandBits(c.St) == 8:
					imm = "byte" // an 8-bit operation has one immediate width only
				case o.Imm >= -128 && o.Imm <= 127:
					imm = "s8"
				case fitsS8(o.Imm, sem.OperandBits(c.St)):
					imm = "s8-as-unsigned"
				default:
					imm = "wide"
				}
			}
		}
		v.Sig = fmt.Sprintf("C18|cls=%s|mode=%d|mn=%s|imm=%s|excess=%d", c.Cls, mode, c.St.Mn, imm, len(r.Out)-want)
		return v
	}
	if len(r.Out) < want {
		v.Fail = fmt.Sprintf("reference model error: %q (BITS %d) is correctly encoded in %d bytes (% x) but MinLen says %d", c.St.Render(), mode, len(r.Out), r.Out, want)
		v.Sig = "C18|model"
		return v
	}
	// non-trivial: at least two legal encodings of different length exist
	alt := false
	switch c.St.Mn {
	case "PUSH", "POP":
		alt = true // FF /6, 8F /0; 68 iw/id beside 6A ib
	case "MOV":
		alt = true // C6/C7 /0 ; 8A/8B with ModR/M+disp
	default:
		bits := sem.OperandBits(c.St)
		alt = (bits != 8 && fitsS8(c.St.Ops[1].Imm, bits)) || (c.St.Ops[0].Kind == sem.KReg && (c.St.Ops[0].Reg == "AL" || c.St.Ops[0].Reg == "AX" || c.St.Ops[0].Reg == "EAX"))
	}
	v.NonTrivial = alt
	v.Sample = map[string]any{"mode": mode, "stmt": c.St.Render(), "bytes": fmt.Sprintf("% x", r.Out), "min": want}
	return v
}

var c18Imms = []int64{0, 1, 5, 126, 127, 128, 129, 255, 256, -1, -2, -127, -128, -129, -130, -255, -256, 0x7f80, 0x7fff, 0x8000, 0xff7f, 0xff80, 0xffff, 0x10000, 0x7fffffff, 0x80000000, 0xffffff7f, 0xffffff80, 0xffffffff}

func c18Forms() []form {
	var fs []form
	for _, w := range []string{"8", "16", "32"} {
		r, m := "r"+w, map[string]string{"8": "mB", "16": "mW", "32": "mD"}[w]
		for _, op := range []string{"ADD", "OR", "AND", "SUB", "XOR", "CMP"} {
			fs = append(fs, form{Mn: op, Slots: []string{r, "imm"}, Class: "alu.ri"}, form{Mn: op, Slots: []string{m, "imm"}, Class: "alu.mi"})
		}
		fs = append(fs, form{Mn: "MOV", Slots: []string{r, "imm"}, Class: "mov.ri"})
	}
	for _, w := range []string{"16", "32"} {
		fs = append(fs, form{Mn: "PUSH", Slots: []string{"r" + w}, Class: "stack.r"}, form{Mn: "POP", Slots: []string{"r" + w}, Class: "stack.r"})
	}
	fs = append(fs, form{Mn: "PUSH", Slots: []string{"imm"}, Class: "stack.i"})
	return fs
}

func c18Moffs(yield func(sem.Stmt)) {
	for _, acc := range []string{"AL", "AX", "EAX"} {
		for _, a := range []int64{0, 0x10, 0x0ff0, 0x7fff, 0x8000, 0xfffe, 0xffff} {
			m := sem.M(sem.Mem{Disp: a, HasDisp: true})
			yield(sem.Stmt{Mn: "MOV", Ops: []sem.Operand{sem.R(acc), m}})
			yield(sem.Stmt{Mn: "MOV", Ops: []sem.Operand{m, sem.R(acc)}})
		}
	}
}

// c18Moffs32: absolute addresses that only exist at 32-bit address width
func c18Moffs32(yield func(sem.Stmt)) {
	for _, acc := range []string{"AL", "AX", "EAX"} {
		for _, a := range []int64{0x10000, 0x7fffffff, 0x80000000, 0xfffffffe, 0xffffffff} {
			m := sem.M(sem.Mem{Disp: a, HasDisp: true})
			yield(sem.Stmt{Mn: "MOV", Ops: []sem.Operand{sem.R(acc), m}})
			yield(sem.Stmt{Mn: "MOV", Ops: []sem.Operand{m, sem.R(acc)}})
		}
	}
}

// c18Mems: memory destinations whose shortest address encoding is easy to miss: every 16-bit shape and a
// selection of 32-bit ones, without displacement and with displacements on both sides of the disp8 range
func c18Mems(size string) []sem.Operand {
	var out []sem.Operand
	shapes := append(append([]memShape{}, shapes16()...), memShape{Base: "EBX"}, memShape{Base: "EBP"}, memShape{Base: "ESP"}, memShape{Base: "EAX", Index: "ECX", Scale: 4}, memShape{Base: "EBP", Index: "ESI", Scale: 1}, memShape{Index: "EDX", Scale: 2})
	for _, sh := range shapes {
		if sh.Base == "" && sh.Index == "" {
			continue
		}
		for _, d := range []struct {
			has bool
			v   int64
		}{{false, 0}, {true, 1}, {true, 127}, {true, 128}, {true, -128}, {true, -129}} {
			if d.has && !okDisp(sh, d.v) {
				continue
			}
			out = append(out, sem.M(sem.Mem{Size: size, Base: sh.Base, Index: sh.Index, Scale: sh.Scale, Disp: d.v, HasDisp: d.has}))
		}
	}
	return out
}

var propC18 = &Prop[InstCase]{
	ID:   "C18",
	Rule: "ADD/OR/AND/SUB/XOR/CMP x every register of each width and typed memory destinations (every 16-bit shape and several 32-bit ones, without displacement and with displacements on both sides of the disp8 range) x immediates on both sides of -128/127 and the boundary set; MOV accumulator <-> absolute address; MOV reg,imm; PUSH/POP reg; PUSH imm (6A ib for -128..127, values up to 16 bits); BITS 16/32; alone or right after the same statement with another register (state kept per mnemonic and address); oracle: decodes to the statement (C01's comparison) and length <= reference minimum (prefixes + opcode + minimal ModR/M/SIB/disp + minimal immediate form; equal-length alternatives accepted); non-trivial = at least two legal encodings of different length exist; distinct by (mode, statement)",
	Gen: func(t *rapid.T) InstCase {
		mode := rapid.SampledFrom([]int{0, 16, 32}).Draw(t, "mode")
		if rapid.IntRange(0, 9).Draw(t, "moffs") == 0 {
			var all []sem.Stmt
			c18Moffs(func(s sem.Stmt) { all = append(all, s) })
			ic := InstCase{Mode: mode, St: all[rapid.IntRange(0, len(all)-1).Draw(t, "mo")], Cls: "mov.moffs"}
			if rapid.Bool().Draw(t, "mosib") {
				ic.Ctx = "sibling"
			}
			return ic
		}
		fs := c18Forms()
		f := fs[rapid.IntRange(0, len(fs)-1).Draw(t, "form")]
		st := drawForm(t, f)
		// memory destinations: half of them from the shapes whose shortest form is easy to miss
		for i := range st.Ops {
			if st.Ops[i].Kind == sem.KMem && rapid.Bool().Draw(t, "c18mem") {
				ms := c18Mems(st.Ops[i].Mem.Size)
				st.Ops[i] = ms[rapid.IntRange(0, len(ms)-1).Draw(t, "c18memi")]
			}
		}
		// bias immediates to the sign-extension boundary
		for i := range st.Ops {
			if st.Ops[i].Kind == sem.KImm && rapid.Bool().Draw(t, "nearb") {
				st.Ops[i] = immOp(rapid.SampledFrom(c18Imms).Draw(t, "bimm"), rapid.IntRange(0, 1).Draw(t, "bstyle"))
			}
		}
		ic := InstCase{Mode: mode, St: st, Cls: f.Class}
		if rapid.IntRange(0, 3).Draw(t, "sib") == 0 {
			ic.Ctx = "sibling"
		}
		return ic
	},
	Check: checkC18,
	Enum: func(tier string, yield func(InstCase)) bool {
		for _, mode := range []int{16, 32} {
			for _, f := range c18Forms() {
				if tier == "quick" && f.Mn != "ADD" && f.Mn != "CMP" && f.Mn != "MOV" && f.Mn != "PUSH" && f.Mn != "POP" {
					continue
				}
				doms := make([][]sem.Operand, len(f.Slots))
				for i, s := range f.Slots {
					if s == "imm" {
						for _, v := range c18Imms {
							doms[i] = append(doms[i], immOp(v, 1))
						}
					} else {
						doms[i] = slotDomain(s, true)
					}
				}
				var rec func(i int, ops []sem.Operand)
				rec = func(i int, ops []sem.Operand) {
					if i == len(doms) {
						yield(InstCase{Mode: mode, St: sem.Stmt{Mn: f.Mn, Ops: append([]sem.Operand{}, ops...)}, Cls: f.Class})
						return
					}
					for _, o := range doms[i] {
						rec(i+1, append(ops, o))
					}
				}
				rec(0, nil)
			}
			for _, sz := range []string{"BYTE", "WORD", "DWORD"} {
				for _, m := range c18Mems(sz) {
					for _, op := range []string{"ADD", "CMP"} {
						for _, v := range []int64{1, -128, 300} {
							yield(InstCase{Mode: mode, St: sem.Stmt{Mn: op, Ops: []sem.Operand{m, immOp(v, 1)}}, Cls: "alu.mi"})
						}
					}
				}
			}
			c18Moffs(func(s sem.Stmt) { yield(InstCase{Mode: mode, St: s, Cls: "mov.moffs"}) })
			c18Moffs(func(s sem.Stmt) { yield(InstCase{Mode: mode, St: s, Cls: "mov.moffs", Ctx: "sibling"}) })
			if mode == 32 {
				c18Moffs32(func(s sem.Stmt) { yield(InstCase{Mode: mode, St: s, Cls: "mov.moffs"}) })
			}
		}
		return tier == "thorough"
	},
}

func TestC18(t *testing.T) { Run(t, propC18) }
