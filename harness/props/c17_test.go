package props

import (
	"bytes"
	"fmt"
	"strings"
	"testing"

	"github.com/HobbyOSs/gosk/verifharness/asm"
	"github.com/HobbyOSs/gosk/verifharness/coff"
	"github.com/HobbyOSs/gosk/verifharness/sem"
	"github.com/HobbyOSs/gosk/verifharness/x86asm"
	"pgregory.net/rapid"
)

// ---------------------------------------------------------------------------
// C17 — BITS selects the encoding mode for what follows it.

type ModeGroup struct {
	Mode  int        `json:"mode"`            // 0 = no directive written (only meaningful for the first group), 16, 32
	Pre   []string   `json:"pre,omitempty"`   // non-instruction lines between the directive and the instructions
	Lead  []string   `json:"lead,omitempty"`  // non-instruction lines before the directive
	Stmts []sem.Stmt `json:"stmts"`           // label-free instructions
	Data  []string   `json:"data,omitempty"`  // data lines after the instructions (mode independent)
	Texts []string   `json:"texts,omitempty"` // rendered statements (filled by the generator)
	// Branch: "" none; "lead": the group starts with JMP to a label at its end (first statement after
	// the directive is a label reference); "far": after the instructions a Jcc over 200 reserved bytes
	// (in 16-bit mode this needs widening, i.e. a second assembly round)
	// "num": after the instructions one branch whose target is written relative to `$` (NumOp $+NumK): a
	// numeric target, always the near form, position independent
	Branch string `json:"branch,omitempty"`
	Tag    int    `json:"tag,omitempty"`
	NumOp  string `json:"numop,omitempty"`
	NumK   int    `json:"numk,omitempty"`
}

type BitsCase struct {
	Groups []ModeGroup `json:"groups"`
	// FormatAt >= 1: a [FORMAT "WCOFF"] line is written in front of group FormatAt-1 (before its own lines and
	// its BITS directive); the program bytes are then the .text section of the object. The output format must
	// not have a say in the encoding mode.
	FormatAt int `json:"formatat,omitempty"`
	// Tail: the program ends with "DD $" (flat binaries only): the value must be the number of bytes in
	// front of it, i.e. every statement was also *sized* for the mode in force.
	Tail bool `json:"tail,omitempty"`
}

func (c *BitsCase) tail() bool { return c.Tail && c.FormatAt == 0 }

func bitsDirective(m int) string {
	switch m {
	case 16:
		return "[BITS 16]\n"
	case 32:
		return "[BITS 32]\n"
	}
	return ""
}

func (g *ModeGroup) body() string {
	var sb strings.Builder
	if g.Branch == "lead" {
		fmt.Fprintf(&sb, "\tJMP zzlead%d\n", g.Tag)
	}
	for _, s := range g.Stmts {
		sb.WriteString("\t" + s.Render() + "\n")
	}
	if g.Branch == "far" {
		fmt.Fprintf(&sb, "\tJNE zzfar%d\n\tRESB 200\nzzfar%d:\n", g.Tag, g.Tag)
	}
	if g.Branch == "num" {
		if g.NumK < 0 {
			fmt.Fprintf(&sb, "\t%s $-0x%x\n", g.NumOp, -g.NumK)
		} else {
			fmt.Fprintf(&sb, "\t%s $+0x%x\n", g.NumOp, g.NumK)
		}
	}
	for _, d := range g.Data {
		sb.WriteString("\t" + d + "\n")
	}
	if g.Branch == "lead" {
		fmt.Fprintf(&sb, "zzlead%d:\n", g.Tag)
	}
	return sb.String()
}

func (c *BitsCase) source() string {
	var sb strings.Builder
	for i, g := range c.Groups {
		if c.FormatAt == i+1 {
			sb.WriteString("[FORMAT \"WCOFF\"]\n")
		}
		for _, l := range g.Lead {
			sb.WriteString(l + "\n")
		}
		sb.WriteString(bitsDirective(g.Mode))
		for _, l := range g.Pre {
			sb.WriteString(l + "\n")
		}
		sb.WriteString(g.body())
	}
	if c.tail() {
		sb.WriteString("\tDD $\n")
	}
	return sb.String()
}

// effective mode of group i: its own directive, else the previous group's, else 16.
func (c *BitsCase) effMode(i int) int {
	for j := i; j >= 0; j-- {
		if c.Groups[j].Mode != 0 {
			return c.Groups[j].Mode
		}
	}
	return 16
}

func checkC17(c BitsCase) Verdict {
	src := c.source()
	v := Verdict{Key: src}
	// baseline: the same program without instructions and data (directives print content-free warnings)
	var bsb strings.Builder
	for i, g := range c.Groups {
		if c.FormatAt == i+1 {
			bsb.WriteString("[FORMAT \"WCOFF\"]\n")
		}
		for _, l := range g.Lead {
			bsb.WriteString(l + "\n")
		}
		bsb.WriteString(bitsDirective(g.Mode))
		for _, l := range g.Pre {
			bsb.WriteString(l + "\n")
		}
	}
	base := asm.Baseline(bsb.String())
	r := asm.Assemble(src)
	if asm.Diagnosed(r, base) {
		v.Skip = "diagnosed: " + asm.DiagClass(r, base)
		return v
	}
	if c.FormatAt > 0 {
		obj, err := coff.Parse(r.Out)
		if err != nil || len(obj.Sections) == 0 {
			v.Skip = "structurally invalid object (C08 decides)"
			return v
		}
		r.Out = obj.Sections[0].Data
		st.Classes["wcoff"]++
	}
	fail := func(kind string, f string, a ...any) Verdict {
		v.Fail = fmt.Sprintf(f, a...) + fmt.Sprintf("\n--- source ---\n%s--- output ---\n% x", src, head(r.Out, 96))
		v.Sig = "C17|" + kind
		return v
	}
	// (1) metamorphic: whole = concatenation of the groups assembled alone under their effective mode
	var cat []byte
	var segs [][]byte
	for i := range c.Groups {
		m := c.effMode(i)
		rg := asm.Assemble(bitsDirective(m) + c.Groups[i].body())
		if asm.Diagnosed(rg, asm.Baseline(bitsDirective(m))) {
			v.Skip = "group alone diagnosed: " + asm.DiagClass(rg, asm.Baseline(bitsDirective(m)))
			return v
		}
		segs = append(segs, rg.Out)
		cat = append(cat, rg.Out...)
	}
	if c.tail() {
		n := len(cat)
		cat = append(cat, byte(n), byte(n>>8), byte(n>>16), byte(n>>24))
		segs = append(segs, cat[n:])
	}
	if !bytes.Equal(r.Out, cat) {
		if c.tail() && len(r.Out) == len(cat) && bytes.Equal(r.Out[:len(cat)-4], cat[:len(cat)-4]) {
			return fail("tail", "the closing DD $ holds % x, but %d bytes were emitted in front of it: some statement was sized for another mode than it was encoded for", r.Out[len(cat)-4:], len(cat)-4)
		}
		at := 0
		for at < len(cat) && at < len(r.Out) && cat[at] == r.Out[at] {
			at++
		}
		gi, acc := 0, 0
		for i, s := range segs {
			gi = min(i, len(c.Groups)-1)
			if at < acc+len(s) {
				break
			}
			acc += len(s)
		}
		return fail(fmt.Sprintf("concat|group=%d|mode=%d|first=%v", min(gi, 3), c.effMode(gi), c.Groups[0].Mode == 0),
			"the program's bytes differ from the concatenation of its mode groups at offset %d (group %d, which is in %d-bit mode): % x vs % x", at, gi, c.effMode(gi), clip(r.Out, at), clip(cat, at))
	}
	// (2) reference: each group decodes under its mode to the instructions written
	modeSensitive := true
	for i, g := range c.Groups {
		m := c.effMode(i)
		b := segs[i]
		off := 0
		sens := false
		if g.Branch == "lead" {
			inst, err := x86asm.Decode(b, m)
			rel, isRel := inst.Args[0].(x86asm.Rel)
			if err != nil || inst.Op != x86asm.JMP || !isRel {
				return fail("leadbranch|mode="+fmt.Sprint(m), "group %d (%d-bit): the leading JMP does not decode as a relative jump (% x)", i, m, head(b, 8))
			}
			if inst.Len+int(rel) != len(b) {
				return fail("leadbranch|mode="+fmt.Sprint(m), "group %d (%d-bit): the leading JMP (% x) lands at offset %d of its group, the label is at %d", i, m, b[:inst.Len], inst.Len+int(rel), len(b))
			}
			if m == 32 && inst.DataSize != 32 {
				return fail("leadbranch|mode=32", "group %d: JMP in 32-bit mode encoded with a 16-bit displacement", i)
			}
			off = inst.Len
			sens = true
		}
		for _, st := range g.Stmts {
			if off >= len(b) {
				return fail("decode", "group %d (%d-bit): bytes end before %q", i, m, st.Render())
			}
			inst, err := x86asm.Decode(b[off:], m)
			if err != nil {
				return fail("decode", "group %d (%d-bit): %q does not decode at offset %d: %v", i, m, st.Render(), off, err)
			}
			if mm := sem.CompareInst(st, m, inst); mm != nil {
				return fail("meaning|mode="+fmt.Sprint(m), "group %d (%d-bit): %q decodes as %q — %s", i, m, st.Render(), x86asm.IntelSyntax(inst, 0, nil), mm)
			}
			if bits := sem.OperandBits(st); bits == 16 || bits == 32 {
				sens = true
			}
			off += inst.Len
		}
		if g.Branch == "far" {
			inst, err := x86asm.Decode(b[off:], m)
			if err != nil {
				return fail("farbranch", "group %d (%d-bit): the Jcc does not decode at offset %d: %v", i, m, off, err)
			}
			rel, isRel := inst.Args[0].(x86asm.Rel)
			if sem.CanonOp(inst.Op.String()) != "JNE" || !isRel || int(rel) != 200 {
				return fail("farbranch|mode="+fmt.Sprint(m), "group %d (%d-bit): JNE over 200 reserved bytes decodes as %q (% x)", i, m, x86asm.IntelSyntax(inst, 0, nil), b[off:off+inst.Len])
			}
			off += inst.Len + 200
		}
		if g.Branch == "num" {
			if off >= len(b) {
				return fail("numbranch", "group %d (%d-bit): bytes end before the %s", i, m, g.NumOp)
			}
			inst, err := x86asm.Decode(b[off:], m)
			if err != nil {
				return fail("numbranch", "group %d (%d-bit): %s $%+d does not decode at offset %d: %v", i, m, g.NumOp, g.NumK, off, err)
			}
			rel, isRel := inst.Args[0].(x86asm.Rel)
			if sem.CanonOp(inst.Op.String()) != sem.CanonOp(g.NumOp) || !isRel || inst.Len+int(rel) != g.NumK || inst.DataSize != m {
				return fail("numbranch|mode="+fmt.Sprint(m), "group %d (%d-bit): %s $%+d decodes as %q with a %d-bit displacement (% x)", i, m, g.NumOp, g.NumK, x86asm.IntelSyntax(inst, 0, nil), inst.DataSize, b[off:off+inst.Len])
			}
			off += inst.Len
			sens = true
		}
		if !sens {
			modeSensitive = false
		}
	}
	v.NonTrivial = modeSensitive && len(c.Groups) >= 1
	v.Class = fmt.Sprintf("groups=%d,first=%d", len(c.Groups), c.Groups[0].Mode)
	v.Sample = map[string]any{"source": src}
	return v
}

var c17Noise = []string{"; a comment", "\tGLOBAL _gsym", "\tEXTERN _esym", "[INSTRSET \"i486p\"]", "[FILE \"c17.nas\"]", "[SECTION .text]", "qconst\tEQU\t0x10", "# hash comment", ""}

// genMemStmt: a statement with a memory operand from C02's shapes (absolute addresses included).
func genMemStmt(t *rapid.T, mode int) sem.Stmt {
	cs := carriers()
	c := cs[rapid.IntRange(0, len(cs)-2).Draw(t, "mcarrier")] // not LGDT
	var sh memShape
	if rapid.Bool().Draw(t, "maddr16") {
		l := shapes16()
		sh = l[rapid.IntRange(0, len(l)-1).Draw(t, "mshape16")]
	} else {
		l := shapes32()
		sh = l[rapid.IntRange(0, len(l)-1).Draw(t, "mshape32")]
	}
	has := rapid.Bool().Draw(t, "mhasdisp")
	d := rapid.SampledFrom([]int64{1, -1, 4, 127, 128, -128, 0x1234}).Draw(t, "mdisp")
	if !okDisp(sh, d) {
		d = 4
	}
	if sh.Base == "" && sh.Index == "" {
		has, d = true, rapid.SampledFrom([]int64{0x0ff0, 0x0ff2, 0x1234}).Draw(t, "mabs")
	}
	reg := regsOf(c.Bits)[rapid.IntRange(0, 7).Draw(t, "mreg")]
	var imm sem.Operand
	if c.Other == "imm8" {
		imm = genImm8(t, "mimm")
	} else {
		imm = genImm(t, "mimm")
	}
	return mkMemCase(mode, c, sh, d, has, reg, imm, 0).St
}

func genModeGroup(t *rapid.T, mode, eff int, first bool, used map[string]bool, prev []ModeGroup) ModeGroup {
	g := ModeGroup{Mode: mode}
	pickNoise := func(label string, n int) []string {
		var out []string
		for i := 0; i < n; i++ {
			l := rapid.SampledFrom(c17Noise).Draw(t, label)
			if strings.Contains(l, "EQU") || strings.Contains(l, "GLOBAL") || strings.Contains(l, "EXTERN") {
				nm := genName(t, label+"_n", used)
				l = strings.NewReplacer("qconst", nm, "_gsym", nm, "_esym", nm).Replace(l)
			}
			out = append(out, l)
		}
		return out
	}
	g.Lead = pickNoise("lead", rapid.IntRange(0, 2).Draw(t, "nlead"))
	g.Pre = pickNoise("pre", rapid.IntRange(0, 2).Draw(t, "npre"))
	fs := progForms()
	n := rapid.IntRange(1, 4).Draw(t, "nst")
	// one group in three repeats the statements of an earlier group (the same text under another, or the same, mode)
	if len(prev) > 0 && rapid.IntRange(0, 2).Draw(t, "repeat") == 0 {
		for _, st := range prev[rapid.IntRange(0, len(prev)-1).Draw(t, "repeatof")].Stmts {
			if accepts(eff, st.Render()) {
				g.Stmts = append(g.Stmts, st)
			}
		}
		n = len(g.Stmts) + rapid.IntRange(0, 1).Draw(t, "nstmore")
	}
	for len(g.Stmts) < n {
		var st sem.Stmt
		if rapid.IntRange(0, 3).Draw(t, "memform") == 0 {
			st = genMemStmt(t, eff)
		} else {
			f := fs[rapid.IntRange(0, len(fs)-1).Draw(t, "form")]
			st = drawForm(t, f)
		}
		if accepts(eff, st.Render()) {
			g.Stmts = append(g.Stmts, st)
		} else {
			g.Stmts = append(g.Stmts, sem.Stmt{Mn: "MOV", Ops: []sem.Operand{sem.R("AX"), sem.R("BX")}})
		}
	}
	if rapid.IntRange(0, 2).Draw(t, "hasdata") == 0 {
		d, _ := genDataStmt(t)
		g.Data = append(g.Data, d)
	}
	g.Branch = rapid.SampledFrom([]string{"", "", "", "lead", "far", "num", "num"}).Draw(t, "gbranch")
	if g.Branch == "num" {
		g.NumOp = rapid.SampledFrom([]string{"JMP", "CALL", "JE", "JNE", "JB", "JGE"}).Draw(t, "numop")
		g.NumK = rapid.SampledFrom([]int{0x300, 0x1234, -0x200, 0x7000, 0x90, -0x90}).Draw(t, "numk")
	}
	return g
}

var propC17 = &Prop[BitsCase]{
	ID:   "C17",
	Rule: "programs of 1..5 label-free instruction groups (register, immediate and memory-operand forms; one group in three repeats the statement texts of an earlier group), each optionally preceded by a [BITS 16]/[BITS 32] directive (none at all for the first group = default mode; repeated modes and 16->32->16 included) with comments, EQU, GLOBAL/EXTERN, other bracket directives and data lines before and after the directive, one group in four closed by a branch to a numeric target written relative to `$` (JMP/CALL/Jcc $+K), every second flat program closed by `DD $` (its value must equal the number of bytes in front of it: the statements were also sized for their mode), one program in six with a [FORMAT \"WCOFF\"] line in front of some group (the bytes are then the object's .text); oracle (1) metamorphic: out(P) = concatenation of the groups assembled alone under their effective mode, (2) reference: every group decodes under its effective mode (x86asm) to exactly the instructions written (this pins 'no directive = 16-bit'); non-trivial = every group holds an instruction whose encoding differs between the modes; distinct by source text",
	Gen: func(t *rapid.T) BitsCase {
		var c BitsCase
		used := map[string]bool{}
		ng := rapid.IntRange(1, 5).Draw(t, "ngroups")
		eff := 16
		for i := 0; i < ng; i++ {
			mode := rapid.SampledFrom([]int{16, 32}).Draw(t, "gmode")
			if i == 0 && rapid.IntRange(0, 2).Draw(t, "nodirective") == 0 {
				mode = 0
			}
			if mode != 0 {
				eff = mode
			}
			g := genModeGroup(t, mode, eff, i == 0, used, c.Groups)
			g.Tag = i
			c.Groups = append(c.Groups, g)
		}
		if rapid.IntRange(0, 5).Draw(t, "wcoff") == 0 {
			c.FormatAt = 1 + rapid.IntRange(0, len(c.Groups)-1).Draw(t, "formatat")
		}
		c.Tail = rapid.IntRange(0, 1).Draw(t, "tail") == 0
		return c
	},
	Check: checkC17,
}

func TestC17(t *testing.T) { Run(t, propC17) }
