package props

import (
	"encoding/json"
	"fmt"
	"os"
	"path/filepath"
	"testing"

	"github.com/HobbyOSs/gosk/verifharness/sem"
)

// TestDumpRegress (only with VERIF_DUMP_REGRESS=<dir>) writes the committed
// regression cases: witnesses of every repaired defect plus hand-picked
// boundary cases. They are replayed at the start of every run.
func TestDumpRegress(t *testing.T) {
	dir := os.Getenv("VERIF_DUMP_REGRESS")
	if dir == "" {
		t.Skip("VERIF_DUMP_REGRESS not set")
	}
	write := func(pid, name string, c any, note string) {
		d := filepath.Join(dir, pid)
		os.MkdirAll(d, 0o755)
		b, _ := json.MarshalIndent(map[string]any{"property": pid, "case": c, "note": note}, "", " ")
		if err := os.WriteFile(filepath.Join(d, name+".json"), b, 0o644); err != nil {
			t.Fatal(err)
		}
	}
	ic := func(mode int, cls, mn string, ops ...sem.Operand) InstCase {
		return InstCase{Mode: mode, Cls: cls, St: sem.Stmt{Mn: mn, Ops: ops}}
	}
	mem := func(size, base, index string, scale int, disp int64, has bool) sem.Operand {
		return sem.M(sem.Mem{Size: size, Base: base, Index: index, Scale: scale, Disp: disp, HasDisp: has})
	}
	// ---- C01
	write("C01", "fixed-73f8464-add-ax-8000", ic(16, "alu.ri", "ADD", sem.R("AX"), immOp(0x8000, 1)), "66h from immediate magnitude")
	write("C01", "fixed-73f8464-mov-eax-300-32", ic(32, "mov.ri", "MOV", sem.R("EAX"), immOp(300, 0)), "66h from immediate magnitude")
	write("C01", "fixed-73f8464-mov-ax-ebx", ic(16, "mov.rm", "MOV", sem.R("AX"), mem("", "EBX", "", 0, 0, false)), "66h from address registers")
	write("C01", "fixed-73f8464-add-dword-bx-5", ic(16, "alu.mi", "ADD", mem("DWORD", "BX", "", 0, 0, false), immOp(5, 0)), "typed memory ignored")
	write("C01", "fixed-cd5661a-mov-ax-ds", ic(16, "mov.sreg", "MOV", sem.R("AX"), sem.R("DS")), "MOV r16,sreg typo")
	write("C01", "fixed-93cf65d-mov-es-mem", ic(16, "mov.sregm", "MOV", sem.R("ES"), mem("", "BX", "", 0, 0, false)), "MOV Sreg,m16")
	write("C01", "fixed-93cf65d-mov-mem-ds", ic(16, "mov.sregm", "MOV", mem("", "BX", "", 0, 0, false), sem.R("DS")), "MOV m16,Sreg")
	write("C01", "fixed-27f7ee9-push-imm32-16", ic(16, "stack.i", "PUSH", immOp(0x12345678, 1)), "PUSH imm width")
	write("C01", "fixed-27f7ee9-push-300-32", ic(32, "stack.i", "PUSH", immOp(300, 0)), "PUSH imm width")
	write("C01", "fixed-27f7ee9-push-ffff-16", ic(16, "stack.i", "PUSH", immOp(0xffff, 1)), "PUSH imm width")
	write("C01", "fixed-d4e5041-int-80", ic(16, "int", "INT", immOp(0x80, 1)), "INT >127 panicked")
	write("C01", "fixed-d4e5041-int-ff", ic(32, "int", "INT", immOp(0xff, 1)), "INT >127 panicked")
	write("C01", "known-F01-cpuid", ic(16, "noparam", "CPUID"), "witness of open finding F01")
	write("C01", "known-F02-cwde", ic(16, "noparam", "CWDE"), "witness of open finding F02")
	write("C01", "known-F03-rep", ic(16, "noparam", "REP"), "witness of open finding F03")
	write("C01", "known-F04-mul-cx", ic(16, "unary.r", "MUL", sem.R("CX")), "witness of open finding F04")
	// ---- C02
	cs := map[string]carrier{}
	for _, c := range carriers() {
		cs[fmt.Sprintf("%s%d", c.Name, c.Bits)] = c
	}
	write("C02", "fixed-6397128-eax-eax", mkMemCase(32, cs["mov.load8"], memShape{"EAX", "EAX", 1}, 0, false, "AL", immOp(0, 0), 0), "SIB 0x00 dropped")
	write("C02", "fixed-6397128-ebp-ebx2", mkMemCase(32, cs["mov.load16"], memShape{"EBP", "EBX", 2}, 0, false, "AX", immOp(0, 0), 0), "EBP base lost")
	write("C02", "fixed-6397128-ebx4-8", mkMemCase(32, cs["mov.load32"], memShape{"", "EBX", 4}, 8, true, "EAX", immOp(0, 0), 0), "spurious EBP base")
	write("C02", "fixed-6397128-bx-si-32", mkMemCase(32, cs["mov.load32"], memShape{"BX", "SI", 0}, 0, false, "EAX", immOp(0, 0), 0), "16-bit addressing under BITS 32")
	write("C02", "fixed-6397128-ebx4-8-16", mkMemCase(16, cs["alu.imm16"], memShape{"", "ECX", 8}, 127, true, "AX", immOp(5, 0), 0), "index without base, disp8")
	// ---- C03
	lp := func(mode int, org int64, stmts ...string) Prog {
		p := Prog{Mode: mode, Org: org}
		for _, s := range stmts {
			p.Items = append(p.Items, Item{Kind: ItStmt, Text: s, Cls: "regress"})
		}
		p.Items = append(p.Items, Item{Kind: ItLabel, Name: "qlbl"}, Item{Kind: ItMarker, Ser: 1, Name: "qlbl"},
			Item{Kind: ItMarker, Ser: 2, Name: "$table"}, Item{Kind: ItStmt, Text: "DD qlbl", Cls: "table", Ref: "qlbl", RefAs: "table"},
			Item{Kind: ItMarker, Ser: 3}, Item{Kind: ItStmt, Text: "DW $", Cls: "ref.dollar", RefAs: "dollar", Ser: 3})
		return p
	}
	write("C03", "fixed-48fd3f9-int3", lp(16, -1, "INT 3"), "INT 3 sized 1, emitted 2")
	write("C03", "fixed-27f7ee9-push-300", lp(16, -1, "PUSH 300"), "PUSH imm sized as imm8 form")
	write("C03", "fixed-27f7ee9-push-300-32", lp(32, -1, "PUSH 300"), "PUSH imm sized as imm8 form")
	write("C03", "fixed-be59256-ebx-300", lp(16, -1, "MOV AX,[EBX+300]"), "disp width by mode")
	write("C03", "fixed-be59256-sib-16", lp(16, -1, "MOV AL,[EAX+EBX*4]"), "SIB not counted in 16-bit mode")
	write("C03", "fixed-be59256-ebp", lp(32, -1, "MOV EAX,[EBP]"), "[EBP] disp8 not counted")
	write("C03", "fixed-be59256-bx-si-32", lp(32, 0x7c00, "MOV [BX+SI],SP"), "16-bit addressing under BITS 32 sized as 32-bit")
	write("C03", "fixed-042e31f-imul", lp(16, -1, "IMUL BX,5"), "IMUL imm width")
	write("C03", "fixed-042e31f-imul-32", lp(32, -1, "IMUL EBX,300"), "IMUL imm width")
	write("C03", "fixed-155c1a5-push-fs", lp(16, -1, "PUSH FS"), "PUSH FS two bytes")
	write("C03", "fixed-e4618b6-alignb", lp(16, 0x7c01, "DB 1", "ALIGNB 4"), "ALIGNB by file offset")
	write("C03", "fixed-6349371-je-num", lp(16, -1, "JE 5"), "numeric Jcc sized 3")
	write("C03", "fixed-d8885a5-mode", Prog{Mode: 0, Org: -1, Items: []Item{
		{Kind: ItStmt, Text: "MOV AX,1", Cls: "regress"}, {Kind: ItDir, Text: "[BITS 32]"}, {Kind: ItStmt, Text: "MOV EAX,1", Cls: "regress"},
		{Kind: ItLabel, Name: "qlbl"}, {Kind: ItMarker, Ser: 1, Name: "qlbl"}, {Kind: ItMarker, Ser: 2, Name: "$table"},
		{Kind: ItStmt, Text: "DD qlbl", Cls: "table", Ref: "qlbl", RefAs: "table"}}}, "all statements encoded in the last BITS mode")
	memref := func(mode int, org int64, text string) Prog {
		return Prog{Mode: mode, Org: org, Items: []Item{
			{Kind: ItStmt, Text: "DB 1,2,3", Cls: "regress"}, {Kind: ItLabel, Name: "qlbl"}, {Kind: ItMarker, Ser: 1, Name: "qlbl"},
			{Kind: ItMarker, Ser: 2}, {Kind: ItStmt, Text: text, Cls: "ref.mem", Ref: "qlbl", RefAs: "mem", Ser: 2},
			{Kind: ItMarker, Ser: 3, Name: "$table"}, {Kind: ItStmt, Text: "DD qlbl", Cls: "table", Ref: "qlbl", RefAs: "table"}}}
	}
	write("C03", "fixed-6c61470-mov-cx-mem-label", memref(16, 0x7c00, "MOV CX,[qlbl]"), "a label inside a memory operand was assembled as address 0")
	write("C03", "fixed-6c61470-mov-moffs-label", memref(16, 0x100, "MOV [qlbl],AL"), "label as moffs address was 0")
	write("C03", "fixed-6c61470-add-mem-label-32", memref(32, 0x280000, "ADD BYTE [qlbl],1"), "label as disp32 was 0")
	// ---- C07
	write("C07", "fixed-6c61470-mem-undef", mkShape(16, "MOV", []string{"r16", "mundef"}, 1), "an undefined symbol as the address of a memory operand went unreported (address 0)")
	write("C07", "fixed-6c61470-mem-label", mkShape(16, "MOV", []string{"r16", "mlabel"}, 1), "a defined label as the address of a memory operand was assembled as 0")
	write("C07", "fixed-mixed-width-address", mkShape(16, "MOV", []string{"r16", "badmem"}, 8), "MOV CX,[BX+EAX] was assembled as [EBX+EAX]")
	write("C07", "fixed-1ed5c43-ret-operand", mkShape(16, "RET", []string{"imm"}, 0), "RET 5 was assembled as a plain RET with only a warning")
	write("C07", "fixed-1ed5c43-ret-reg", mkShape(16, "RET", []string{"r16"}, 1), "RET CX was assembled as a plain RET with only a warning")
	write("C07", "fixed-6eb0d51-hlt-5", mkShape(16, "HLT", []string{"imm"}, 0), "operands of a no-operand instruction ignored")
	write("C07", "fixed-2d62a15-not-ds", mkShape(16, "NOT", []string{"sreg"}, 3), "sreg taken for r16")
	write("C07", "fixed-2d62a15-add-ds-ax", mkShape(16, "ADD", []string{"sreg", "r16"}, 3), "sreg taken for r16")
	write("C07", "fixed-4f50d43-db-empty", mkShape(16, "DB", nil, 0), "DB without operands")
	write("C07", "fixed-b2cac4a-jmp-undef", mkShape(16, "JMP", []string{"undef"}, 0), "undefined branch target")
	write("C07", "fixed-87c93bb-adc", mkShape(16, "ADC", []string{"r16", "imm"}, 0), "statement dropped silently")
	write("C07", "fixed-87c93bb-inc", mkShape(32, "INC", []string{"r32"}, 1), "statement dropped silently")
	write("C07", "fixed-mov-cr-size", mkShape(32, "MOV", []string{"r32", "creg"}, 6), "two-byte opcode counted as one")
	write("C07", "known-F04-div-cx", mkShape(16, "DIV", []string{"r16"}, 1), "witness of open finding F04")
	write("C07", "known-F05-mov-mem-imm", mkShape(16, "MOV", []string{"mem", "immneg"}, 3), "witness of open finding F05")
	// ---- C13
	write("C13", "fixed-d4e5041-int-200", CrashCase{Src: "\tINT 200\n", Kind: "mutant"}, "handleINT panicked on vectors above 127")
	write("C13", "fixed-d4e5041-int-ax", CrashCase{Src: "\tINT AX\n", Kind: "mutant"}, "handleINT panicked on a non-numeric operand")
	write("C13", "fixed-b1a0463-equ-self", CrashCase{Src: "X EQU X\n\tDB X\n", Kind: "mutant"}, "self-referential EQU overflowed the stack")
	write("C13", "fixed-b1a0463-equ-cycle", CrashCase{Src: "A EQU B+1\nB EQU A*2\n\tDD B\n", Kind: "mutant"}, "EQU cycle")
	write("C13", "boundary-template", CrashCase{Src: "\tJMP {{.x}}\n\tMOV AX,{{.\n", Kind: "mutant"}, "template metacharacters in operands")
	write("C13", "boundary-bignum", CrashCase{Src: "\tDD 99999999999999999999\n\tDB 0xffffffffffffffffff\n", Kind: "mutant"}, "numbers beyond 64 bits")
	write("C13", "fixed-equ-cycle3", CrashCase{Src: "A EQU B+1\nB EQU C*2\nC EQU A-3\n\tDW C\n", Kind: "mutant"}, "three-name EQU cycle with non-constant links: stack overflow at first use")
	write("C13", "fixed-equ-cycle2", CrashCase{Src: "A EQU B+1\nB EQU A+1\n\tDW A\n", Kind: "mutant"}, "two-name cycle missed by the definition-time check")
	write("C13", "fixed-equ-mem-self", CrashCase{Src: "A EQU [A]\n\tMOV AX,A\n", Kind: "mutant"}, "self reference through a memory operand")
	write("C13", "fixed-equ-far-self", CrashCase{Src: "A EQU 8:A\n\tJMP A\n", Kind: "mutant"}, "self reference through a far pointer")
	write("C13", "fixed-equ-doubling", CrashCase{Src: scaledInput("equdouble", 10000), Kind: "scale", Family: "equdouble"}, "40-level doubling chain: 2^40 expansions")
	write("C13", "fixed-94c7a44-resb-oom", CrashCase{Src: "\tDB 1\n\tRESB 0xFFFFFFFFFF\n\tDB 2\n", Kind: "mutant"}, "RESB of 1 TiB: fatal error: out of memory")
	write("C13", "fixed-94c7a44-resb-makeslice", CrashCase{Src: "\tRESB 0x7fffffffffffffff\n", Kind: "mutant"}, "RESB 2^63-1: panic makeslice len out of range")
	write("C13", "fixed-94c7a44-resb-2g", CrashCase{Src: "qa:\tRESB 2147483648 ; wraps the location counter\n\tDW qa\n", Kind: "mutant"}, "RESB 2^31: location counter wrapped negative, 2 GiB of output")
	write("C19", "fixed-3d93c4e-utf8-string", CLICase{Kind: "prog", Src: "\tDB \"caf\u00e9\",1\n\tDB \"\u65e5\u672c\"\n"}, "a UTF-8 string literal was re-read as Shift_JIS by the command: DB \"é\" gave EF BE 83 EF BD A9")
	write("C11", "fixed-055f81f-forward-minus", EquCase{Mode: 16, Defs: []EquDef{{Name: "qa", Body: "1", Val: 1, Dep: 1}, {Name: "qb", Body: "2", Val: 2, Dep: 1}, {Name: "qx", Body: "10-qa-qb", Val: 7, Dep: 2}}, Perm: []int{2, 0, 1}, Stmts: []string{"MOV AX,qx", "DB qx+1"}, Sites: []string{"imm16", "db"}}, "10-a-b with a and b defined further down evaluated to 9: the minus of the first unfoldable term was dropped")
	write("C11", "fixed-c80ff9a-register-alias", EquCase{Mode: 16, Defs: []EquDef{{Name: "qa", Body: "2", Val: 2, Dep: 1}, {Name: "qreg", Body: "BX", Dep: 1}}, Stmts: []string{"MOV AX,[qreg+SI]", "MOV CL,[qreg]", "MOV AX,[qreg+qa]", "ADD qreg,qa"}, Sites: []string{"regalias", "regalias", "regalias", "regalias"}}, "a name standing for a register was refused in [R+SI] and [R]")
	write("C13", "fixed-58bcad3-equ-stored-doubling", CrashCase{Src: scaledInput("equmuldouble", 7500), Kind: "scale", Family: "equmuldouble"}, "30 definitions that each double the stored expression: exponential time and memory")
	// ---- C04
	write("C04", "seeded-C04-2-chain", BranchCase{Mode: 16, Org: -1, Kind: "chain", Trailing: true, Chain: []string{"JMP", "JE"}, Gaps: []int{123, 2}}, "widening the inner branch pushes the outer one over rel8 (needs two re-assembly rounds)")
	write("C04", "seeded-C04-2-chain3", BranchCase{Mode: 16, Org: 0x7c00, Kind: "chain", Trailing: true, Chain: []string{"JC", "JMP", "JNZ"}, Gaps: []int{121, 1, 1}}, "three nested branches on the rel8 boundary")
	write("C03", "seeded-C04-1-call-num", lp(16, -1, "CALL 0x1234"), "numeric CALL counted 4 bytes")
	write("C03", "seeded-C03-1-bp-si", lp(16, -1, "MOV AX,[BP+SI]"), "phantom disp8 for [BP+SI]")
	write("C04", "fixed-6349371-bwd-125", BranchCase{Mode: 16, Org: -1, Mn: "JMP", Kind: "bwd", Filler: 120}, "rel8 fit tested on the wrong quantity (wrap)")
	write("C04", "fixed-6349371-bwd-wrap", BranchCase{Mode: 16, Org: -1, Mn: "JNZ", Kind: "bwd", Filler: 121, Trailing: true}, "rel8 wrap")
	write("C04", "fixed-6349371-fwd-32", BranchCase{Mode: 32, Org: -1, Mn: "JMP", Kind: "fwd", Filler: 0, Trailing: true}, "32-bit short form vs near estimate")
	write("C04", "fixed-6349371-call-32", BranchCase{Mode: 32, Org: -1, Mn: "CALL", Kind: "fwd", Filler: 3, Trailing: true}, "CALL rel16 in 32-bit mode")
	write("C04", "fixed-6349371-jcc-200-32", BranchCase{Mode: 32, Org: 0x7c00, Mn: "JE", Kind: "fwd", Filler: 200, Trailing: true}, "0F 8x cw in 32-bit mode")
	write("C04", "fixed-2c433c2-fwd-128", BranchCase{Mode: 16, Org: -1, Mn: "JMP", Kind: "fwd", Filler: 128, Trailing: true}, "16-bit branch beyond rel8")
	write("C04", "fixed-2c433c2-jcc-300", BranchCase{Mode: 16, Org: 0x7c00, Mn: "JBE", Kind: "bwd", Filler: 300, Trailing: true}, "16-bit branch beyond rel8")
	write("C04", "fixed-fceef40-64k", BranchCase{Mode: 16, Org: 0x8000, Mn: "JMP", Kind: "fwd", Filler: 32772, Trailing: true}, "66h rel32 form not counted")
	write("C04", "fixed-6349371-num-short", BranchCase{Mode: 16, Org: 0x7c00, Mn: "JMP", Kind: "num", Target: 0x7c10, Trailing: true}, "numeric target emitted short, counted near")
}
