module github.com/HobbyOSs/gosk/verifharness

go 1.23

toolchain go1.23.5

require (
	github.com/HobbyOSs/gosk v0.0.0
	golang.org/x/text v0.21.0
	pgregory.net/rapid v1.3.0
)

require (
	github.com/HobbyOSs/json-x86-64-go-mod v0.1.0 // indirect
	github.com/comail/colog v0.0.0-20160416085026-fba8e7b1f46c // indirect
	github.com/harakeishi/gats v0.0.0-20230219034858-055bc915842a // indirect
	github.com/lunixbochs/struc v0.0.0-20241101090106-8d528fa2c543 // indirect
	github.com/morikuni/failure v1.1.2 // indirect
	github.com/samber/lo v1.49.1 // indirect
	github.com/zeroflucs-given/generics v0.0.0-20250113082619-4aa2a59e718f // indirect
)

replace github.com/HobbyOSs/gosk => /repo
