// Package coff is a strict, independent reader of i386 COFF object files
// (header, section table, symbol table with auxiliary records, string
// table). Every offset and count is checked against the real file size;
// nothing is shared with gosk's writer.
package coff

import (
	"encoding/binary"
	"fmt"
)

type Header struct {
	Machine              uint16
	NumberOfSections     uint16
	TimeDateStamp        uint32
	PointerToSymbolTable uint32
	NumberOfSymbols      uint32
	SizeOfOptionalHeader uint16
	Characteristics      uint16
}

type Section struct {
	Name                 string
	VirtualSize          uint32
	VirtualAddress       uint32
	SizeOfRawData        uint32
	PointerToRawData     uint32
	PointerToRelocations uint32
	PointerToLinenumbers uint32
	NumberOfRelocations  uint16
	NumberOfLinenumbers  uint16
	Characteristics      uint32
	Data                 []byte
}

type Symbol struct {
	Name          string
	LongName      bool // resolved through the string table
	RawName       [8]byte
	Value         uint32
	SectionNumber int16
	Type          uint16
	StorageClass  uint8
	NumAux        uint8
	Aux           [][]byte // NumAux records of 18 bytes
	Index         int      // record index in the table
}

type File struct {
	Header      Header
	Sections    []Section
	Symbols     []Symbol // primary records only
	Records     int      // 18-byte records including auxiliaries
	StringTable []byte   // including its 4-byte length field
	Size        int
}

func le16(b []byte) uint16 { return binary.LittleEndian.Uint16(b) }
func le32(b []byte) uint32 { return binary.LittleEndian.Uint32(b) }

func cstr(b []byte) string {
	for i, c := range b {
		if c == 0 {
			return string(b[:i])
		}
	}
	return string(b)
}

// Parse reads and validates b. Any structural inconsistency is an error.
func Parse(b []byte) (*File, error) {
	f := &File{Size: len(b)}
	if len(b) < 20 {
		return nil, fmt.Errorf("file has %d bytes, shorter than a COFF header", len(b))
	}
	h := Header{le16(b[0:]), le16(b[2:]), le32(b[4:]), le32(b[8:]), le32(b[12:]), le16(b[16:]), le16(b[18:])}
	f.Header = h
	if h.Machine != 0x14c {
		return nil, fmt.Errorf("machine %#x, want 0x14c", h.Machine)
	}
	if h.SizeOfOptionalHeader != 0 {
		return nil, fmt.Errorf("optional header size %d in an object file", h.SizeOfOptionalHeader)
	}
	secEnd := 20 + int(h.NumberOfSections)*40
	if secEnd > len(b) {
		return nil, fmt.Errorf("section table (%d sections) extends beyond the file", h.NumberOfSections)
	}
	for i := 0; i < int(h.NumberOfSections); i++ {
		s := b[20+i*40:]
		sec := Section{
			Name: cstr(s[0:8]), VirtualSize: le32(s[8:]), VirtualAddress: le32(s[12:]), SizeOfRawData: le32(s[16:]),
			PointerToRawData: le32(s[20:]), PointerToRelocations: le32(s[24:]), PointerToLinenumbers: le32(s[28:]),
			NumberOfRelocations: le16(s[32:]), NumberOfLinenumbers: le16(s[34:]), Characteristics: le32(s[36:]),
		}
		if sec.SizeOfRawData > 0 {
			if sec.PointerToRawData == 0 && sec.Characteristics&0x80 == 0 {
				return nil, fmt.Errorf("section %s has %d bytes of raw data but no pointer", sec.Name, sec.SizeOfRawData)
			}
			if sec.PointerToRawData != 0 {
				lo, hi := int(sec.PointerToRawData), int(sec.PointerToRawData)+int(sec.SizeOfRawData)
				if lo < secEnd || hi > len(b) {
					return nil, fmt.Errorf("section %s raw data [%d,%d) outside the file body [%d,%d)", sec.Name, lo, hi, secEnd, len(b))
				}
				sec.Data = b[lo:hi]
			}
		} else if sec.PointerToRawData != 0 && int(sec.PointerToRawData) > len(b) {
			return nil, fmt.Errorf("section %s raw data pointer %d beyond the file", sec.Name, sec.PointerToRawData)
		}
		if int(sec.PointerToRelocations)+10*int(sec.NumberOfRelocations) > len(b) {
			return nil, fmt.Errorf("section %s relocations [%d + %d records] beyond the file", sec.Name, sec.PointerToRelocations, sec.NumberOfRelocations)
		}
		if int(sec.PointerToLinenumbers)+6*int(sec.NumberOfLinenumbers) > len(b) {
			return nil, fmt.Errorf("section %s line numbers beyond the file", sec.Name)
		}
		f.Sections = append(f.Sections, sec)
	}
	// symbol table
	st := int(h.PointerToSymbolTable)
	n := int(h.NumberOfSymbols)
	if n > 0 || st != 0 {
		if st < secEnd {
			return nil, fmt.Errorf("symbol table offset %d inside the headers", st)
		}
		for _, s := range f.Sections {
			if s.Data != nil && st < int(s.PointerToRawData)+int(s.SizeOfRawData) && st+18*n > int(s.PointerToRawData) {
				return nil, fmt.Errorf("symbol table [%d,%d) overlaps section %s", st, st+18*n, s.Name)
			}
		}
	}
	symEnd := st + 18*n
	if symEnd > len(b) {
		return nil, fmt.Errorf("symbol table [%d,%d) (%d records) extends beyond the file (%d bytes)", st, symEnd, n, len(b))
	}
	// string table: 4-byte length immediately after the symbol table
	if symEnd+4 > len(b) {
		return nil, fmt.Errorf("no string table length field after the symbol table")
	}
	strLen := int(le32(b[symEnd:]))
	if strLen < 4 {
		return nil, fmt.Errorf("string table length field %d < 4", strLen)
	}
	if symEnd+strLen != len(b) {
		return nil, fmt.Errorf("PointerToSymbolTable + 18*NumberOfSymbols + string table length = %d, file size is %d", symEnd+strLen, len(b))
	}
	f.StringTable = b[symEnd:]
	f.Records = n
	for i := 0; i < n; {
		r := b[st+18*i:]
		s := Symbol{Value: le32(r[8:]), SectionNumber: int16(le16(r[12:])), Type: le16(r[14:]), StorageClass: r[16], NumAux: r[17], Index: i}
		copy(s.RawName[:], r[0:8])
		if le32(r[0:]) == 0 && le32(r[4:]) != 0 {
			off := int(le32(r[4:]))
			if off < 4 || off >= strLen {
				return nil, fmt.Errorf("symbol record %d: long-name offset %d outside the string table (length %d)", i, off, strLen)
			}
			end := off
			for end < strLen && f.StringTable[end] != 0 {
				end++
			}
			if end >= strLen {
				return nil, fmt.Errorf("symbol record %d: long name at %d is not NUL-terminated inside the string table", i, off)
			}
			s.Name = string(f.StringTable[off:end])
			s.LongName = true
		} else {
			s.Name = cstr(r[0:8])
		}
		if int(s.SectionNumber) > int(h.NumberOfSections) {
			return nil, fmt.Errorf("symbol %q: section number %d > %d sections", s.Name, s.SectionNumber, h.NumberOfSections)
		}
		if i+1+int(s.NumAux) > n {
			return nil, fmt.Errorf("symbol %q (record %d) claims %d auxiliary records but the table has %d records", s.Name, i, s.NumAux, n)
		}
		for a := 0; a < int(s.NumAux); a++ {
			s.Aux = append(s.Aux, b[st+18*(i+1+a):st+18*(i+2+a)])
		}
		f.Symbols = append(f.Symbols, s)
		i += 1 + int(s.NumAux)
	}
	return f, nil
}
